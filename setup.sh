#!/bin/sh
# MANIFEST.setup_cmd: offline install of the monitor libraries (icontract, jsonschema)
# next to the framework. Idempotent; the checks also do this themselves if needed.
HERE="$(cd "$(dirname "$0")" && pwd)"
cd "$HERE" || exit 1
export PIP_NO_INDEX=1 PYTHONDONTWRITEBYTECODE=1
/venv/bin/python -c "from vmon import boot; boot.ensure_deps(); import icontract, jsonschema; print('deps ok', icontract.__version__)"
