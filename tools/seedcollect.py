#!/usr/bin/env python3
"""Collect one sub-agent deliverable from its scratch worktree into seeded/<id>/ and evaluate it.

  tools/seedcollect.py <worktree> <seed-id> [origin text]

The worktree holds the uncommitted source change, demo.py and NOTES.json (breaks,
needs_to_manifest, violated_clause, files_touched).  Writes seeded/<seed-id>/{patch.diff,demo.py,
meta.json}, then runs tools/seedrun.py on it and prints its JSON line.  Nothing under /repo is
touched; the worktree is left for the caller to remove."""
import json
import os
import shutil
import subprocess
import sys

HERE = os.path.dirname(os.path.dirname(os.path.abspath(__file__)))


def main():
    wt, sid = sys.argv[1], sys.argv[2]
    origin = sys.argv[3] if len(sys.argv) > 3 else "independent sub-agent (property text + scratch worktree only)"
    dst = os.path.join(HERE, "seeded", sid)
    notes = json.load(open(os.path.join(wt, "NOTES.json")))
    diff = subprocess.run(["git", "-C", wt, "diff", "--", "plotink"], capture_output=True, text=True).stdout
    if not diff.strip():
        print(json.dumps({"seed": sid, "error": "empty diff"}))
        return 2
    os.makedirs(dst, exist_ok=True)
    open(os.path.join(dst, "patch.diff"), "w").write(diff)
    shutil.copy(os.path.join(wt, "demo.py"), os.path.join(dst, "demo.py"))
    ft = notes.get("files_touched", [])
    if isinstance(ft, str):
        ft = [ft]
    meta = {"property": sid.split("-")[0], "kind": "breaking", "breaks": notes.get("breaks", ""),
            "files_touched": [os.path.basename(f) for f in ft], "origin": origin,
            "needs_to_manifest": notes.get("needs_to_manifest", ""),
            "violated_clause": notes.get("violated_clause", ""), "what_was_run": []}
    json.dump(meta, open(os.path.join(dst, "meta.json"), "w"), indent=1)
    r = subprocess.run([sys.executable, os.path.join(HERE, "tools", "seedrun.py"), dst], capture_output=True, text=True)
    print(r.stdout.strip().splitlines()[-1] if r.stdout.strip() else r.stderr[-500:])
    return 0


if __name__ == "__main__":
    sys.exit(main())
