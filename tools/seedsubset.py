#!/usr/bin/env python3
"""Re-evaluate the seeded changes against a SUBSET of checks (after editing those checks):
  tools/seedsubset.py C01 C03 ...   -> every seed whose check list contains one of them, run against just those.
Prints one line per seed and a summary; exit 1 if an expectation is not met.  Does not touch RESULTS.json."""
import json
import os
import subprocess
import sys
from concurrent.futures import ThreadPoolExecutor

HERE = os.path.dirname(os.path.dirname(os.path.abspath(__file__)))
SEEDED = os.path.join(HERE, "seeded")


def one(job):
    sid, checks = job
    r = subprocess.run([sys.executable, os.path.join(HERE, "tools", "seedrun.py"), os.path.join(SEEDED, sid)] + checks,
                       capture_output=True, text=True)
    try:
        out = json.loads(r.stdout.strip().splitlines()[-1])
    except Exception:
        return sid, None, r.stdout[-300:] + r.stderr[-300:]
    return sid, out, None


def main():
    touched = set(sys.argv[1:])
    jobs = []
    metas = {}
    for sid in sorted(os.listdir(SEEDED)):
        mp = os.path.join(SEEDED, sid, "meta.json")
        if not os.path.exists(mp):
            continue
        m = json.load(open(mp))
        metas[sid] = m
        checks = [m["property"]] + list(m.get("also_checks", []))
        sel = [c for c in checks if c in touched]
        if sel:
            jobs.append((sid, sel))
    bad = 0
    with ThreadPoolExecutor(max_workers=int(os.environ.get("SEED_JOBS", "6"))) as ex:
        for sid, out, err in ex.map(one, jobs):
            m = metas[sid]
            if out is None:
                print(sid, "ERROR", err)
                bad += 1
                continue
            exits = {k: v["exit"] for k, v in out.get("checks", {}).items()}
            if m.get("kind", "breaking") == "breaking":
                ok = exits.get(m["property"], 1) == 1 if m["property"] in exits else True
            else:
                ok = all(e == 0 for e in exits.values())
            print("%-8s %-10s %s %s" % (sid, m.get("kind", "breaking"), "ok " if ok else "NOT-AS-EXPECTED", exits))
            sys.stdout.flush()
            bad += 0 if ok else 1
    print("seeds evaluated: %d, not as expected: %d" % (len(jobs), bad))
    return 1 if bad else 0


if __name__ == "__main__":
    sys.exit(main())
