#!/usr/bin/env python3
"""Regenerates MANIFEST.json from the table below (kept in one place so that the
manifest stays valid while checks are added). Run: python3 tools/make_manifest.py"""
import json
import os

HERE = os.path.dirname(os.path.dirname(os.path.abspath(__file__)))

# id -> (category, technique, level text, level note, design ref)
CHECKS = {
    "C01": ("exploration",
            "runtime contract (icontract post-condition) on the real move_dist_lt + exact integer "
            "reference model, seeded stratified workload, ambient-precision perturbation",
            "Every return value of the real move_dist_lt / moveDistLMA / moveDistLM observed during a "
            "class-stratified workload (1.2e5 calls quick, ~2e7 thorough, T up to 2^32, all clear/accumulator "
            "and truncation classes, constructed exact-boundary totals, chained moves, 11 ambient mpmath "
            "settings) equals the integer recurrence. Held on what was observed; not a proof.",
            "Trusted: the reference recurrence in vmon/oracles/stepper.py (closed form, self-checked "
            "against literal ticking each run); Python int arithmetic.",
            "DESIGN.md section 3 C01"),
}

NOT_YET = "monitor not built yet in this revision (planned, see DESIGN.md)"


def main():
    props = [json.loads(l)["id"] for l in open(os.path.join(HERE, "properties.jsonl"))]
    checks = []
    for pid in props:
        if pid not in CHECKS:
            continue
        cat, tech, text, note, ref = CHECKS[pid]
        checks.append({
            "property_id": pid,
            "quick_cmd": "./check %s --tier quick" % pid,
            "thorough_cmd": "./check %s --tier thorough" % pid,
            "evidence_file": "/verif/evidence/%s.json" % pid,
            "replay_cmd_template": "./check %s --replay {path}" % pid,
            "engine": "vmon",
            "level_claimed": {"category": cat, "text": text, "design_ref": ref},
            "level_note": note,
            "technique": tech,
        })
    manifest = {
        "version": 1,
        "setup_cmd": "./setup.sh",
        "hooks": {
            "guard": "PLOTINK_VERIF",
            "enable": "no source hooks: every observation point is attached from the harness "
                      "(icontract on module/class attributes, fake serial.Serial/comports, "
                      "monitored subclass); the guard name is reserved and unused",
            "baseline_off_cmd": "cd /repo && /venv/bin/python -m pytest -q -p no:cacheprovider test",
            "source_commits": [],
            "add_only": True,
        },
        "engines": [{
            "name": "vmon", "path": "/verif/vmon",
            "serves_properties": [c["property_id"] for c in checks],
            "kind_free_text": "runtime monitoring: contracts + reference models on the real functions, "
                              "device/client boundary event logs with online and offline checkers, "
                              "seeded hostile workloads and fault placement",
        }],
        "checks": checks,
        "notes": "All checks import /repo's working tree in a fresh interpreter (no build step). "
                 "Exit 0 held on observed, 1 violation (VIOLATION line), 2 inconclusive (monitor not "
                 "reached / oracle self-check failed). VERIF_SEED and VERIF_TIER are honoured.",
        "not_applicable": [{"property_id": pid, "reason": NOT_YET} for pid in props if pid not in CHECKS],
    }
    with open(os.path.join(HERE, "MANIFEST.json"), "w") as fh:
        json.dump(manifest, fh, indent=1)
        fh.write("\n")
    try:
        import jsonschema
        jsonschema.validate(manifest, json.load(open("/root/.vp/MANIFEST.schema.json")))
        print("MANIFEST.json valid;", len(checks), "checks,", len(manifest["not_applicable"]), "not claimed")
    except ImportError:
        print("MANIFEST.json written (jsonschema not importable here)")


if __name__ == "__main__":
    main()
