#!/usr/bin/env python3
"""Regenerates MANIFEST.json from the table below (kept in one place so that the
manifest stays valid while checks are added). Run: python3 tools/make_manifest.py"""
import json
import os

HERE = os.path.dirname(os.path.dirname(os.path.abspath(__file__)))

# id -> (category, technique, level text, level note, design ref)
CHECKS = {
    "C01": ("exploration",
            "runtime contract (icontract post-condition) on the real move_dist_lt + exact integer "
            "reference model, seeded stratified workload, ambient-precision perturbation",
            "Every return value of the real move_dist_lt / moveDistLMA / moveDistLM observed during a "
            "class-stratified workload (1.2e5 calls quick, ~2e7 thorough, T up to 2^32, all clear/accumulator "
            "and truncation classes, constructed exact-boundary totals, chained moves, 11 ambient mpmath "
            "settings) equals the integer recurrence. Held on what was observed; not a proof.",
            "Trusted: the reference recurrence in vmon/oracles/stepper.py (closed form, self-checked "
            "against literal ticking each run); Python int arithmetic.",
            "DESIGN.md section 3 C01"),
    "C02": ("exploration",
            "runtime contracts (icontract post-conditions) on the real move_dist_t3 and rate_t3 + exact "
            "third-order integer reference model, seeded stratified workload, ambient-precision perturbation",
            "Every in-domain return value of the real move_dist_t3 and rate_t3 observed in a class-stratified "
            "workload (7e4 moves quick, ~1.1e7 thorough; all jerk residues mod 6 x sign, accel parities, the "
            "three clear levels incl. r1=r2=r3=0, interior extrema, exact-boundary totals, 11 ambient mpmath "
            "settings) equals the recurrence; zero-jerk moves are compared with the real move_dist_lt.",
            "Trusted: closed-form recurrence in vmon/oracles/stepper.py (self-checked by literal ticking); "
            "domain filter computed exactly from the statement's validity condition.",
            "DESIGN.md section 3 C02"),
    "C03": ("exploration",
            "runtime contract on the real calculate_lm + exact minimal-tick oracle (bisection over the integer "
            "recurrence), cross-check through the real move_dist_lt, constructed boundary classes",
            "Every in-domain return value of the real calculate_lm / moveTimeLM observed (6e4 requests quick, "
            "~1e7 thorough) equals the first tick at which the step count of the exact recurrence reaches the "
            "budget, with its position and accumulator; accumulator range and reproduction through the real "
            "move_dist_lt are checked on the same executions. Classes: every reversal branch, reversal between "
            "tick 1 and 2, exact step-boundary hits before/after a reversal (constructed), legacy negative "
            "budgets, the three cannot-move rules.",
            "Trusted: bisection oracle (self-checked against literal ticking with a per-tick step counter); "
            "requests that do not complete the budget within the rate range are skipped and counted.",
            "DESIGN.md section 3 C03"),
    "C17": ("exploration",
            "runtime contract on the real max_rate_t3 + exact per-tick rate oracle, workload stratified by "
            "vertex position",
            "Every in-domain return value of the real max_rate_t3 observed (1.5e5 quick, ~2.4e7 thorough) "
            "satisfies |r_1| <= v, |r_T| <= v, v <= true peak, true peak - v <= |jerk| against the exact "
            "integer recurrence, with the parabola vertex placed before, at, inside, near the end of and "
            "beyond the move and exactly on integers / half-integers.",
            "Trusted: exact peak from the ends and the integer neighbours of the vertex (self-checked by brute "
            "force over all ticks for T <= 3000).",
            "DESIGN.md section 3 C17"),
}

NOT_YET = "monitor not built yet in this revision (planned, see DESIGN.md)"


def main():
    props = [json.loads(l)["id"] for l in open(os.path.join(HERE, "properties.jsonl"))]
    checks = []
    for pid in props:
        if pid not in CHECKS:
            continue
        cat, tech, text, note, ref = CHECKS[pid]
        checks.append({
            "property_id": pid,
            "quick_cmd": "./check %s --tier quick" % pid,
            "thorough_cmd": "./check %s --tier thorough" % pid,
            "evidence_file": "/verif/evidence/%s.json" % pid,
            "replay_cmd_template": "./check %s --replay {path}" % pid,
            "engine": "vmon",
            "level_claimed": {"category": cat, "text": text, "design_ref": ref},
            "level_note": note,
            "technique": tech,
        })
    manifest = {
        "version": 1,
        "setup_cmd": "./setup.sh",
        "hooks": {
            "guard": "PLOTINK_VERIF",
            "enable": "no source hooks: every observation point is attached from the harness "
                      "(icontract on module/class attributes, fake serial.Serial/comports, "
                      "monitored subclass); the guard name is reserved and unused",
            "baseline_off_cmd": "cd /repo && /venv/bin/python -m pytest -q -p no:cacheprovider test",
            "source_commits": [],
            "add_only": True,
        },
        "engines": [{
            "name": "vmon", "path": "/verif/vmon",
            "serves_properties": [c["property_id"] for c in checks],
            "kind_free_text": "runtime monitoring: contracts + reference models on the real functions, "
                              "device/client boundary event logs with online and offline checkers, "
                              "seeded hostile workloads and fault placement",
        }],
        "checks": checks,
        "notes": "All checks import /repo's working tree in a fresh interpreter (no build step). "
                 "Exit 0 held on observed, 1 violation (VIOLATION line), 2 inconclusive (monitor not "
                 "reached / oracle self-check failed). VERIF_SEED and VERIF_TIER are honoured.",
        "not_applicable": [{"property_id": pid, "reason": NOT_YET} for pid in props if pid not in CHECKS],
    }
    with open(os.path.join(HERE, "MANIFEST.json"), "w") as fh:
        json.dump(manifest, fh, indent=1)
        fh.write("\n")
    try:
        import jsonschema
        jsonschema.validate(manifest, json.load(open("/root/.vp/MANIFEST.schema.json")))
        print("MANIFEST.json valid;", len(checks), "checks,", len(manifest["not_applicable"]), "not claimed")
    except ImportError:
        print("MANIFEST.json written (jsonschema not importable here)")


if __name__ == "__main__":
    main()
