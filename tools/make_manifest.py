#!/usr/bin/env python3
"""Regenerates MANIFEST.json from the table below (kept in one place so that the
manifest stays valid while checks are added). Run: python3 tools/make_manifest.py"""
import json
import os

HERE = os.path.dirname(os.path.dirname(os.path.abspath(__file__)))

# id -> (category, technique, level text, level note, design ref)
CHECKS = {
    "C01": ("exploration",
            "runtime contract (icontract post-condition) on the real move_dist_lt + exact integer "
            "reference model, seeded stratified workload, ambient-precision perturbation",
            "Every return value of the real move_dist_lt / moveDistLMA / moveDistLM observed during a "
            "class-stratified workload (1.2e5 calls quick, ~2e7 thorough, T up to 2^32, all clear/accumulator "
            "and truncation classes, constructed exact-boundary totals, chained moves, 11 ambient mpmath "
            "settings) equals the integer recurrence. Held on what was observed; not a proof.",
            "Trusted: the reference recurrence in vmon/oracles/stepper.py (closed form, self-checked "
            "against literal ticking each run); Python int arithmetic.",
            "DESIGN.md section 3 C01"),
    "C02": ("exploration",
            "runtime contracts (icontract post-conditions) on the real move_dist_t3 and rate_t3 + exact "
            "third-order integer reference model, seeded stratified workload, ambient-precision perturbation",
            "Every in-domain return value of the real move_dist_t3 and rate_t3 observed in a class-stratified "
            "workload (7e4 moves quick, ~1.1e7 thorough; all jerk residues mod 6 x sign, accel parities, the "
            "three clear levels incl. r1=r2=r3=0, interior extrema, exact-boundary totals, 11 ambient mpmath "
            "settings) equals the recurrence; zero-jerk moves are compared with the real move_dist_lt.",
            "Trusted: closed-form recurrence in vmon/oracles/stepper.py (self-checked by literal ticking); "
            "domain filter computed exactly from the statement's validity condition.",
            "DESIGN.md section 3 C02"),
    "C03": ("exploration",
            "runtime contract on the real calculate_lm + exact minimal-tick oracle (bisection over the integer "
            "recurrence), cross-check through the real move_dist_lt, constructed boundary classes",
            "Every in-domain return value of the real calculate_lm / moveTimeLM observed (6e4 requests quick, "
            "~1e7 thorough) equals the first tick at which the step count of the exact recurrence reaches the "
            "budget, with its position and accumulator; accumulator range and reproduction through the real "
            "move_dist_lt are checked on the same executions. Classes: every reversal branch, reversal between "
            "tick 1 and 2, exact step-boundary hits before/after a reversal (constructed), legacy negative "
            "budgets, the three cannot-move rules.",
            "Trusted: bisection oracle (self-checked against literal ticking with a per-tick step counter); "
            "requests that do not complete the budget within the rate range are skipped and counted.",
            "DESIGN.md section 3 C03"),
    "C04": ("fault_enumeration",
            "online latch monitor (hook on every err assignment + every write() of the injected fake port) and "
            "per-call history checker on the real EBBMotionWrap; systematic fault placement then all 32 followers",
            "Every one of the 32 public request methods was called (random valid arguments) on objects latched by each "
            "fatal fault kind at each write/read index of each request method, latched by each kind of failed connect, "
            "never connected, disconnected and rebooted, plus random 5..60-call histories with disconnect/connect/"
            "record_error interleaved (1.6e5 blocked calls quick, ~2e7 thorough): no write() reached the port while an "
            "error was recorded or the port was absent, each call returned its documented failure value, no err "
            "assignment replaced a recorded message, nothing raised.",
            "Trusted: fake pyserial port and Ebb3Board simulator (vmon/serialsim.py); failure-value table from the "
            "docstrings; the run-time subclass only wraps and forwards.",
            "DESIGN.md section 4 C04"),
    "C05": ("fault_enumeration",
            "offline checker over client-boundary and device-boundary event logs of the real EBB3 object against "
            "the statement's framing rule; scripted replies, systematic method x fault x I/O-position placement, "
            "delayed conforming histories with value attribution against a board simulator",
            "Per command()/query() invocation observed (1.3e5 quick, ~1.5e7 thorough): exactly one write of "
            "trimmed text + CR, reads == empties (<=25) + 1, success exactly when the first non-empty line starts "
            "with the 1/2-letter name and carries no Err:, query payload == line minus name minus one comma; per "
            "depth-0 call of each of the 32 request methods under each fault kind at each I/O index: nothing "
            "raised, failure recorded in err and reported by the failure value; after successes no reply left "
            "unread and values returned equal what the board generated for that request.",
            "Trusted: fake port / board simulator; request alphabet and reply alphabet as generated (malformed "
            "payloads with a correct name are out of the statement's alphabet); bare OSError out of "
            "reboot()/bootload() is logged, not decided (pyserial wraps OS errors in SerialException).",
            "DESIGN.md section 4 C05"),
    "C06": ("exploration",
            "device-boundary byte log of a fake port (board acknowledges everything) compared per helper call with "
            "a reference table transcribed from the EBB command documentation; legacy/EBB3 counterpart comparison",
            "Every helper call observed (29 legacy + 29 EBB3 helpers + 16 counterpart pairs, 1.1e5 calls quick, "
            "~1.4e7 thorough; arguments from {0, +-1, range edges, random}, optional arguments absent/None/0/non-zero, "
            "resolutions -3..9, pause lengths around 0/750/1500 and random) wrote exactly the documented request "
            "lines: every supplied argument present in the documented order, zero included, one CR per line, nothing "
            "else; pauses in 1..750 ms chunks summing to n; LM suppressed only when neither axis can move; the two "
            "layers emitted identical text; nothing sent and nothing raised without a port.",
            "Trusted: the reference table in vmon/props/C06.py (written from the EBB command set documentation and the "
            "helpers' docstrings, not from their format strings); V version probes of firmware-gated legacy helpers "
            "are allowed in front of the command.",
            "DESIGN.md section 4 C06"),
    "C16": ("exploration",
            "state assertions at a hook after every step: Ebb3Board simulator state and read-back values of the real "
            "EBB3 methods compared with a reference model (32-byte array, nickname, motor enables + global mode); "
            "motor request space enumerated completely",
            "All 20 prior motor states x all (r1, r2) in {-2..8}^2 (2420 histories, complete in every run) plus random "
            "request sequences; int32 edge values and random values x every slot 0..28; random interleavings of "
            "4-byte/1-byte writes and reads at overlapping slots; nickname write/read with padding and leading "
            "blanks (5e4 asserted steps quick, ~1e7 thorough): board memory always equalled the big-endian model, "
            "every value read back equalled the value written, motors/mode matched the clamped request.",
            "Trusted: Ebb3Board's documented SL/QL, ST/QT, EM/QE semantics (vmon/serialsim.py); when both requested "
            "resolutions clamp to 0 the mode is unspecified and not checked.",
            "DESIGN.md section 4 C16"),
    "C07": ("fault_enumeration",
            "recording wrappers on the real ebb_serial.command/query (client boundary) + fake-port event log (device "
            "boundary), offline per-invocation checker against a request-id-tagged Legacy2xBoard simulator; "
            "systematic request x fault x read-index placement and random delayed/faulty histories",
            "Per primitive invocation observed (5e4 quick, ~6e6 thorough; commands, OK-terminated and no-OK queries "
            "in both letter cases, each reply line preceded by 0/1/2..99/100 empty reads, and 101+ empty reads, "
            "silence, error lines and four exception types at the write and at every read index, also through 12 "
            "consuming helpers): exactly one write of exactly the request bytes, nothing raised, query() returned str "
            "- the data line the board generated for that very request or '' - and in conforming histories no reply "
            "line was left unread and no full-timeout wait followed a complete reply; no port / no text => no I/O.",
            "Trusted: Legacy2xBoard reply grammar (data line + OK; single line for a,i,mr,pi,qm,qg,v; OK for "
            "commands); alignment demanded only for conforming (<=100 empty reads per line) exchanges; exceptions "
            "raised by helpers themselves are observations.",
            "DESIGN.md section 4 C07"),
    "C15": ("exploration",
            "return values of the real min_version (both layers) against integer-tuple order; event-log checker of "
            "EBB3.connect() on fresh monitored objects against device models (serial.Serial replaced by a factory); "
            "wire log of gated legacy helpers against the reported version",
            "Observed (2.3e4 cases quick, ~4.6e6 thorough): every comparison of grid/random multi-digit version "
            "triples (incl. constructed 9-vs-10 digit-length traps) equalled numeric order in both layers and the "
            "layers agreed; connect() returned True with no error exactly for EBB device models answering the first "
            "or second probe with firmware >= the class's minimum, and False with an error for older firmware, "
            "silent, non-EBB (ASCII, 'EBB' without version, non-ASCII) devices, unopenable ports and exceptions at "
            "each probe I/O, never raising; rejected devices received only 'v' probes and later requests wrote "
            "nothing; gated legacy commands reached the wire iff version >= threshold.",
            "Trusted: device models in vmon/props/C15.py; the supported minimum is read from the class under test "
            "(a changed minimum is a policy change, not a violation); repeated connect() on an open port is not decided.",
            "DESIGN.md section 4 C15"),
    "C19": ("exploration",
            "port enumerator (module-level comports of both layers) replaced by a stub; every return value of the real "
            "discovery / listing / naming / lookup functions compared with an oracle written from the statement",
            "For 2e4 generated port lists quick (~2.4e6 thorough; 0..8 entries mixing macOS/Linux, Windows pyserial-3 and "
            "pyserial-2.7 EBB descriptors, boards without serial tag, foreign devices incl. one with an EBB-looking SER= "
            "tag, duplicate / prefix / one-letter names): first-board discovery == two-pass first match, listing == "
            "in-order filter (None when empty), one reported name per board, each board found by every name form the "
            "library reports for it (as is, upper, lower, serial tag, port name) unless an earlier port matches a "
            "documented criterion, no lookup returned a port outside the list or one matching no criterion, layers "
            "agreed (SNR= lists exempt).",
            "Trusted: the oracle in vmon/props/C19.py; port entries are 3-tuples like pyserial's ListPortInfo indexing.",
            "DESIGN.md section 4 C19"),
    "C17": ("exploration",
            "runtime contract on the real max_rate_t3 + exact per-tick rate oracle, workload stratified by "
            "vertex position",
            "Every in-domain return value of the real max_rate_t3 observed (1.5e5 quick, ~2.4e7 thorough) "
            "satisfies |r_1| <= v, |r_T| <= v, v <= true peak, true peak - v <= |jerk| against the exact "
            "integer recurrence, with the parabola vertex placed before, at, inside, near the end of and "
            "beyond the move and exactly on integers / half-integers.",
            "Trusted: exact peak from the ends and the integer neighbours of the vertex (self-checked by brute "
            "force over all ticks for T <= 3000).",
            "DESIGN.md section 3 C17"),
    "C08": ("exploration",
            "runtime contract on the real clip_segment + exact (Fraction) Liang-Barsky oracle against the "
            "rectangle shrunk/grown by the tolerance; loop-iteration hook on clip_code",
            "Every clip_segment answer observed (4.5e4 quick, ~1.1e7 thorough; all 81 endpoint region pairs, "
            "corner crossings, edge-collinear, vertical/horizontal/zero-length, zero-width and zero-area "
            "rectangles, lattice, scales 1e-3..1e6, far outliers) satisfies: reject only if nothing is inside by "
            "more than tol; accept only if something is inside within tol, returned endpoints on the input "
            "segment and inside the rectangle, orientation kept, inside part covered; no exception; loop passes "
            "counted (<= 5 observed).",
            "Trusted: exact rational geometry in vmon/props/C08.py; tol = 1e-9 x max|coordinate| is the "
            "reading of 'tiny relative to the coordinate scale'; |coordinate| <= 1e12.",
            "DESIGN.md section 3 C08"),
    "C09": ("exploration",
            "runtime contracts (snapshot + post-condition) on the real supersample and on the real "
            "points_in_tolerance (every internal call), exact rational distance oracle",
            "Every supersample call observed (5e3 paths quick / ~1.4e6 thorough, up to 400 vertices) leaves an "
            "in-order identity-subsequence that keeps both ends, is unchanged for <= 2 vertices or tolerance <= 0, "
            "and every deleted vertex is within tolerance of the chord of its surviving neighbours (exact); every "
            "points_in_tolerance call (1.2e5 quick) agrees with the exact verdict and with max_dist_from_n_points.",
            "Trusted: exact rational distance (float pre-filter only when the margin exceeds any rounding error); "
            "a relative band of 1e-9 around equality is counted as borderline and not decided.",
            "DESIGN.md section 3 C09"),
    "C10": ("exploration",
            "runtime contract (deep snapshot + post-condition) on the real subdivideCubicPath, dyadic de "
            "Casteljau tree of the ORIGINAL curve in exact rationals, termination guard hook",
            "Every subdivideCubicPath call observed (1.8e3 paths / 2.1e5 pieces quick; ~4.8e5 paths thorough): "
            "original node objects survive in order with points and outer handles intact; the new pieces of each "
            "original piece are exactly its restrictions to consecutive dyadic intervals tiling [0,1] (so inserted "
            "nodes are on the curve and neighbouring handles were rewritten consistently); both inner control "
            "points of every final piece are within the flatness of its chord; a loop guard bounds every call.",
            "Trusted: exact de Casteljau in Fractions; piece equality within 1e-9 x scale; flat/scale >= 1e-5.",
            "DESIGN.md section 3 C10"),
    "C11": ("exploration",
            "runtime contract on the real vb_scale + SVG 1.1 section 7.8 rule written directly in exact rationals, "
            "compared through the mapping of the viewBox corners",
            "Every vb_scale answer observed (5e4 quick, ~8e6 thorough) maps the viewBox corners where SVG "
            "prescribes, in all 19 align/meetOrSlice combinations x {doc aspect <, ==, > viewBox aspect} (all 57 "
            "cells + absent attribute required), with defer, case and separator variants; missing / malformed "
            "viewBox (None, empty, < 4 numbers, non-numeric tokens, non-positive sizes) gives the identity.",
            "Trusted: the oracle's reading of SVG 1.1 7.8; relative tolerance 1e-9 of the coordinate scale.",
            "DESIGN.md section 3 C11"),
    "C12": ("exploration",
            "runtime contracts on the real parseLengthWithUnits / unitsToUserUnits + independent unit table in "
            "exact rationals + cross-function agreement checks (round trip, attribute readers)",
            "For every generated numeral x unit x whitespace string (6e4 quick, ~8e6 thorough): parse yields the "
            "value and unit; unitsToUserUnits = value x SVG factor; userUnitToUnits returns the value; getLength "
            "agrees; getLengthInches x 96 agrees; % uses the reference; unsupported / malformed text gives None "
            "from all of them and never raises.",
            "Trusted: the independent factor table (96 px/in); numerals exclude inf/nan spellings and '_'.",
            "DESIGN.md section 3 C12"),
    "C13": ("exploration",
            "history monitor: hooks on the real Index.__init__/remove_path keep a shadow model of live paths; "
            "icontract post-condition on the real Index.nearest checks every answer against the shadow model and "
            "the grid geometry the object publishes; exactly-once tour check",
            "Every nearest() answer observed across removal histories (4.4e4 answers quick, ~1.2e7 thorough): "
            "None iff nothing is live; identifier in range, of a live path, reversed end only when enabled; true "
            "nearest whenever one lies within one cell width of an in-grid query; no live end certainly in the 3x3 "
            "neighbourhood is closer; global nearest when the neighbourhood is certainly empty; greedy tours visit "
            "every path exactly once.",
            "Trusted: shadow model; grid geometry read from the object; ends/queries within 1e-9 of a cell "
            "border are not used for the neighbourhood clause.",
            "DESIGN.md section 3 C13"),
    "C14": ("exploration",
            "hooks on the real rtree.Index.__init__ (collection registry, node-count guard) + icontract "
            "post-condition on the real top-level intersection() == brute force on the same floats",
            "Every top-level intersection() answer observed (4.5e4 quick, ~1.2e7 thorough; lattice boxes on the "
            "split lines, zero-width/zero-height strokes, points, duplicates, nested, tilings; queries touching "
            "by an edge / corner, degenerate, covering, disjoint) equals the brute-force id set; every "
            "construction completed under a node-count guard.",
            "Trusted: brute-force closed-interval overlap test on the same floats (no tolerance).",
            "DESIGN.md section 3 C14"),
    "C18": ("exploration",
            "runtime contracts on the real checkLimits / checkLimitsTol / constrainLimits / point_in_bounds, "
            "exact rational comparison oracle, exhaustive small-integer grid + stratified generator",
            "Every answer observed (exhaustive grid of 1092 small-integer cases + 6e4 quick / ~1.2e7 thorough "
            "stratified cases incl. values exactly at each bound and at bound +- tolerance, lower == upper, "
            "tolerance 0) returns the value itself inside the range and the nearer bound outside, flags exactly "
            "the outliers (beyond tolerance for the tolerant checker), and point_in_bounds agrees with the "
            "tolerant checker per coordinate.",
            "Trusted: Fraction comparisons; random-double cases within 4 ulp of bound +- tolerance are counted "
            "as borderline, not decided.",
            "DESIGN.md section 3 C18"),
    "C20": ("exploration",
            "runtime contracts on the real xml_escape (syntactic check + lxml read-back in three contexts) and "
            "format_hms (printed text parsed back to seconds)",
            "Every escaped string observed (2.5e4 quick, ~3.2e6 thorough over XML Char incl. pre-escaped text, "
            "mixed quotes, astral characters) has no special character outside the five entities and is read back "
            "unchanged as element content and in both attribute quotings; every duration (6e4 quick, ~8e6 "
            "thorough, boundaries at 10, 59.5, 60, 3599.5, 3600, k*60, k*3600, exact .5 ties, ms input) is printed "
            "to the ms under 10 s, else encodes the nearest second with fields 00..59 in the form chosen by the "
            "rounded value. Known finding F9 (literal TAB/LF/CR are normalised by XML parsers) is reported as "
            "KNOWN-FINDING.",
            "Trusted: lxml/libxml2 as the standard parser; ties may round either way.",
            "DESIGN.md section 3 C20"),
}

NOT_YET = "monitor not built yet in this revision (planned, see DESIGN.md)"


EXTRA = (" Since the seeded-change rounds (DESIGN.md section 10) the workload also contains call histories on "
         "re-used objects and modules (related arguments, calls that raise, edited return values / inputs changed in "
         "place, second sessions, two live objects), argument shapes (keyword calls, tuples, run-time-built strings, "
         "real pyserial entry types, mixed int/float), extreme magnitudes and constructed exact-boundary classes; "
         "the evidence file lists every class with its count, and a run in which a declared class or monitor "
         "stays below its threshold exits 2 (inconclusive) instead of 0. Every check also makes bursts of calls to the "
         "other library functions between its cases (cross-function histories), records the line reach of the "
         "anchored functions (a named function never entered makes the run inconclusive) and, where the contract "
         "is self-contained, runs the repository's own tests under the contract; the workload is repeated under four "
         "interpreter environments (python -O, RuntimeWarning/UserWarning as errors, worker thread, stepping clock). "
         "Each run ends with long-memory histories (churn of 1e5 distinct requests then replay, one object / index "
         "used 66000 times, exact 2^16-period histories). "
         "Validated against 182 independently written property-breaking changes (all reported) and 98 "
         "property-preserving refactors (none reported by the checks they preserve).")


def main():
    props = [json.loads(l)["id"] for l in open(os.path.join(HERE, "properties.jsonl"))]
    checks = []
    for pid in props:
        if pid not in CHECKS:
            continue
        cat, tech, text, note, ref = CHECKS[pid]
        checks.append({
            "property_id": pid,
            "quick_cmd": "./check %s --tier quick" % pid,
            "thorough_cmd": "./check %s --tier thorough" % pid,
            "evidence_file": "/verif/evidence/%s.json" % pid,
            "replay_cmd_template": "./check %s --replay {path}" % pid,
            "engine": "vmon",
            "level_claimed": {"category": cat, "text": text + EXTRA, "design_ref": ref + "; sections 6, 9, 10"},
            "level_note": note,
            "technique": tech,
        })
    manifest = {
        "version": 1,
        "setup_cmd": "./setup.sh",
        "hooks": {
            "guard": "PLOTINK_VERIF",
            "enable": "no source hooks: every observation point is attached from the harness "
                      "(icontract on module/class attributes, fake serial.Serial/comports, "
                      "monitored subclass); the guard name is reserved and unused",
            "baseline_off_cmd": "cd /repo && /venv/bin/python -m pytest -q -p no:cacheprovider test",
            "source_commits": [],
            "add_only": True,
        },
        "engines": [{
            "name": "vmon", "path": "/verif/vmon",
            "serves_properties": [c["property_id"] for c in checks],
            "kind_free_text": "runtime monitoring: contracts + reference models on the real functions, "
                              "device/client boundary event logs with online and offline checkers, "
                              "seeded hostile workloads and fault placement",
        }],
        "checks": checks,
        "notes": "All checks import /repo's working tree in a fresh interpreter (no build step). "
                 "Exit 0 held on observed, 1 violation (VIOLATION line), 2 inconclusive (monitor not "
                 "reached / oracle self-check failed). VERIF_SEED and VERIF_TIER are honoured.",
        "not_applicable": [{"property_id": pid, "reason": NOT_YET} for pid in props if pid not in CHECKS],
    }
    with open(os.path.join(HERE, "MANIFEST.json"), "w") as fh:
        json.dump(manifest, fh, indent=1)
        fh.write("\n")
    try:
        import jsonschema
        jsonschema.validate(manifest, json.load(open("/root/.vp/MANIFEST.schema.json")))
        print("MANIFEST.json valid;", len(checks), "checks,", len(manifest["not_applicable"]), "not claimed")
    except ImportError:
        print("MANIFEST.json written (jsonschema not importable here)")


if __name__ == "__main__":
    main()
