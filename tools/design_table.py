#!/usr/bin/env python3
"""Rewrites the seeded-change table of DESIGN.md section 10 (between the two markers) from
seeded/RESULTS.json and the meta.json files."""
import json
import os

HERE = os.path.dirname(os.path.dirname(os.path.abspath(__file__)))
BEGIN, END = "<!-- seeded-table-begin -->", "<!-- seeded-table-end -->"


def main():
    res = json.load(open(os.path.join(HERE, "seeded", "RESULTS.json")))
    rows = ["| seed | kind | what it changes | checks that alarm | checks that stay silent | first violation kind | how |",
            "|---|---|---|---|---|---|---|"]
    for sid in sorted(res):
        m = json.load(open(os.path.join(HERE, "seeded", sid, "meta.json")))
        r = res[sid]
        kinds = r["kinds"].get(m["property"], {})
        first = next(iter(kinds), "") if kinds else ""
        what = (m.get("breaks") or m.get("changes") or "").replace("|", "/").replace("\n", " ")
        if len(what) > 140:
            what = what[:137] + "..."
        how = "strengthened first" if "strengthening" in m else ("as expected" if r.get("as_expected") else "NOT AS EXPECTED")
        rows.append("| %s | %s | %s | %s | %s | %s | %s |" % (sid, r.get("kind", "breaking"), what, ", ".join(r["caught_by"]) or "-",
                                                           ", ".join(r["missed_by"]) or "-", first[:60], how))
    path = os.path.join(HERE, "DESIGN.md")
    s = open(path).read()
    i, j = s.index(BEGIN), s.index(END)
    s = s[:i + len(BEGIN)] + "\n" + "\n".join(rows) + "\n" + s[j:]
    open(path, "w").write(s)
    n_b = sum(1 for r in res.values() if r.get("kind", "breaking") == "breaking")
    n_p = len(res) - n_b
    print("table rewritten: %d breaking (%d caught), %d preserving (%d silent)" % (
        n_b, sum(1 for r in res.values() if r.get("kind", "breaking") == "breaking" and r["caught_by"]),
        n_p, sum(1 for r in res.values() if r.get("kind") == "preserving" and not r["caught_by"])))


if __name__ == "__main__":
    main()
