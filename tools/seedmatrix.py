#!/usr/bin/env python3
"""Run every seeded change under /verif/seeded against its property's check (plus any extra
checks named in its meta.json "also_checks") on scratch copies, 8 at a time.
Writes seeded/RESULTS.json and prints a table.  tools/seedmatrix.py [seed ids...]"""
import json
import os
import subprocess
import sys
from concurrent.futures import ThreadPoolExecutor

HERE = os.path.dirname(os.path.dirname(os.path.abspath(__file__)))
SEEDED = os.path.join(HERE, "seeded")


def one(sid):
    d = os.path.join(SEEDED, sid)
    meta = json.load(open(os.path.join(d, "meta.json")))
    checks = [meta["property"]] + list(meta.get("also_checks", []))
    r = subprocess.run([sys.executable, os.path.join(HERE, "tools", "seedrun.py"), d] + checks,
                       capture_output=True, text=True)
    try:
        out = json.loads(r.stdout.strip().splitlines()[-1])
    except Exception:
        out = {"error": (r.stdout + r.stderr)[-500:]}
    out["id"] = sid
    return out


def main():
    ids = sys.argv[1:] or sorted(x for x in os.listdir(SEEDED) if os.path.isdir(os.path.join(SEEDED, x)))
    with ThreadPoolExecutor(max_workers=int(os.environ.get("SEED_JOBS", "8"))) as ex:
        results = list(ex.map(one, ids))
    table = {}
    for o in results:
        meta = json.load(open(os.path.join(SEEDED, o["id"], "meta.json")))
        preserving = meta.get("kind") == "preserving"
        if preserving:
            valid = o.get("demo_clean_exit") == 0 and o.get("tests_pass") and o.get("demo_patched_exit") == 0
        else:
            valid = o.get("demo_clean_exit") == 0 and o.get("tests_pass") and o.get("demo_patched_exit", 0) != 0
        caught = {k: v["exit"] != 0 for k, v in o.get("checks", {}).items()}
        table[o["id"]] = {"valid_seed": bool(valid), "caught_by": sorted(k for k, v in caught.items() if v),
                          "missed_by": sorted(k for k, v in caught.items() if not v),
                          "kinds": {k: v["kinds"] for k, v in o.get("checks", {}).items()},
                          "tier": os.environ.get("MUT_TIER", "quick"),
                          "kind": "preserving" if preserving else "breaking",
                          "as_expected": bool(valid and ((not any(caught.values())) if preserving else any(caught.values())))}
        print("%-7s %-10s valid=%s as_expected=%s alarms=%s silent=%s" % (o["id"], table[o["id"]]["kind"], valid,
              table[o["id"]]["as_expected"], table[o["id"]]["caught_by"], table[o["id"]]["missed_by"]))
    if sys.argv[1:] and os.environ.get("SEED_MERGE"):
        # SEED_MERGE=1 with explicit ids: update just those rows of RESULTS.json
        merged = json.load(open(os.path.join(SEEDED, "RESULTS.json")))
        merged.update(table)
        with open(os.path.join(SEEDED, "RESULTS.json"), "w") as fh:
            json.dump(merged, fh, indent=1, sort_keys=True)
            fh.write("\n")
    if not sys.argv[1:]:
        with open(os.path.join(SEEDED, "RESULTS.json"), "w") as fh:
            json.dump(table, fh, indent=1, sort_keys=True)
            fh.write("\n")
    return 0 if all(t["as_expected"] for t in table.values()) else 1


if __name__ == "__main__":
    sys.exit(main())
