#!/usr/bin/env python3
"""Regression of the monitors against known property-breaking edits (never touches /repo):
  * selftest/mutants.json   - textual mutants (one exact replacement each), with the checks that
                              must catch them, and a few deliberately EQUIVALENT / policy-only
                              edits on which the checks must stay silent;
  * selftest/reintroduce/*.fixdiff - the repairs made to /repo (F1..F14), applied in REVERSE:
                              the defect returns and the property's check must report it again.
Each case runs on a scratch copy: repository tests (must pass), then the named quick checks with
VERIF_REPO pointing at the copy.  Writes selftest/RESULTS.json; exit 0 iff every expectation met.
  tools/selftest.py [ids...]"""
import json
import os
import shutil
import subprocess
import sys
import tempfile
from concurrent.futures import ThreadPoolExecutor

HERE = os.path.dirname(os.path.dirname(os.path.abspath(__file__)))
PY = "/venv/bin/python"


def run_case(case):
    tmp = tempfile.mkdtemp(prefix="selftest_")
    out = {"id": case["id"], "expect": case["expect"], "checks": {}}
    try:
        shutil.copytree("/repo/plotink", os.path.join(tmp, "plotink"))
        shutil.copytree("/repo/test", os.path.join(tmp, "test"))
        if "diff" in case:
            r = subprocess.run(["patch", "-R", "-p1", "--no-backup-if-mismatch", "-i", case["diff"]], cwd=tmp,
                               capture_output=True, text=True)
            if r.returncode != 0:
                out["error"] = "reverse patch failed: " + (r.stdout + r.stderr)[-300:]
                return out
        else:
            path = os.path.join(tmp, "plotink", case["file"])
            src = open(path).read()
            want = case.get("count", 1)
            if src.count(case["old"]) == 0 or (want and src.count(case["old"]) != want):
                out["error"] = "pattern occurs %d times" % src.count(case["old"])
                return out
            open(path, "w").write(src.replace(case["old"], case["new"]))
        env = dict(os.environ, PYTHONDONTWRITEBYTECODE="1")
        r = subprocess.run([PY, "-m", "pytest", "-q", "-p", "no:cacheprovider", "test"], cwd=tmp, env=env,
                           capture_output=True, text=True)
        out["tests_pass"] = r.returncode == 0
        for chk in case["checks"]:
            env2 = dict(env, VERIF_REPO=tmp, VERIF_EVIDENCE_DIR=os.path.join(tmp, "evidence"),
                        VERIF_REPLAY_DIR=os.path.join(tmp, "replays"))
            r = subprocess.run([os.path.join(HERE, "check"), chk, "--tier", "quick"], env=env2, capture_output=True, text=True)
            kinds = sorted({ln[7:].split(" witness=")[0] for ln in r.stdout.splitlines() if ln.startswith("  kind=")})
            out["checks"][chk] = {"exit": r.returncode, "kinds": kinds[:4]}
    finally:
        shutil.rmtree(tmp, ignore_errors=True)
    exits = [v["exit"] for v in out["checks"].values()]
    if case["expect"] == "caught":
        out["ok"] = bool(exits) and any(e == 1 for e in exits) and out.get("tests_pass", False)
    else:
        out["ok"] = bool(exits) and all(e == 0 for e in exits)
    return out


def main():
    cases = json.load(open(os.path.join(HERE, "selftest", "mutants.json")))
    rdir = os.path.join(HERE, "selftest", "reintroduce")
    for name in sorted(os.listdir(rdir)):
        fid, prop, _ = name.split(".")
        cases.append({"id": "reintroduce-" + fid, "diff": os.path.join(rdir, name), "checks": [prop], "expect": "caught"})
    if sys.argv[1:]:
        cases = [c for c in cases if c["id"] in sys.argv[1:]]
    with ThreadPoolExecutor(max_workers=int(os.environ.get("SELFTEST_JOBS", "8"))) as ex:
        results = list(ex.map(run_case, cases))
    bad = 0
    for r in results:
        flag = "ok " if r.get("ok") else "BAD"
        bad += 0 if r.get("ok") else 1
        print(flag, r["id"], r["expect"], {k: (v["exit"], v["kinds"][:1]) for k, v in r["checks"].items()}, r.get("error", ""))
    if not sys.argv[1:]:
        with open(os.path.join(HERE, "selftest", "RESULTS.json"), "w") as fh:
            json.dump(results, fh, indent=1)
            fh.write("\n")
    return 1 if bad else 0


if __name__ == "__main__":
    sys.exit(main())
