#!/usr/bin/env python3
"""Ad-hoc mutation probe: tools/mut.py <file under plotink/> <old> <new> <check id>...
Copies /repo to a scratch dir under /tmp, applies one exact string replacement, runs the
repository tests there, then the named quick checks with VERIF_REPO pointing at the copy.
Prints one summary line per check. The scratch copy is removed afterwards."""
import os
import shutil
import subprocess
import sys
import tempfile


def main():
    rel, old, new = sys.argv[1:4]
    checks = sys.argv[4:]
    count = 1
    if os.environ.get("MUT_COUNT"):
        count = int(os.environ["MUT_COUNT"])
    tmp = tempfile.mkdtemp(prefix="mut_")
    try:
        shutil.copytree("/repo/plotink", os.path.join(tmp, "plotink"))
        shutil.copytree("/repo/test", os.path.join(tmp, "test"))
        path = os.path.join(tmp, "plotink", rel)
        src = open(path).read()
        if src.count(old) != count:
            print("mut: pattern occurs %d times (expected %d)" % (src.count(old), count))
            return 2
        open(path, "w").write(src.replace(old, new))
        env = dict(os.environ, PYTHONDONTWRITEBYTECODE="1")
        r = subprocess.run(["/venv/bin/python", "-m", "pytest", "-q", "-p", "no:cacheprovider", "test"],
                           cwd=tmp, env=env, capture_output=True, text=True)
        tests = r.stdout.strip().splitlines()[-1] if r.stdout.strip() else r.stderr[-200:]
        print("tests:", tests)
        for chk in checks:
            env2 = dict(env, VERIF_REPO=tmp, VERIF_EVIDENCE_DIR=os.path.join(tmp, "evidence"),
                        VERIF_REPLAY_DIR=os.path.join(tmp, "replays"))
            r = subprocess.run([os.path.join(os.path.dirname(os.path.dirname(os.path.abspath(__file__))), "check"), chk, "--tier", os.environ.get("MUT_TIER", "quick")],
                               env=env2, capture_output=True, text=True)
            lines = r.stdout.strip().splitlines()
            viol = [l for l in lines if l.startswith("VIOLATION")]
            first = [l for l in lines if l.startswith("  kind=")][:1]
            print("%s exit=%d violations_lines=%d | %s" % (chk, r.returncode, len(viol), lines[-1] if lines else r.stderr[-300:]))
            if first:
                print("   ", first[0][:300])
            if r.returncode not in (0, 1):
                print(r.stdout[-1500:], r.stderr[-1500:])
    finally:
        shutil.rmtree(tmp, ignore_errors=True)
    return 0


if __name__ == "__main__":
    sys.exit(main())
