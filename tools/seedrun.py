#!/usr/bin/env python3
"""Evaluate one seeded change on a scratch copy of /repo (never touches /repo itself).

  tools/seedrun.py <seed-dir> [check ids...]      seed-dir holds patch.diff, demo.py, meta.json

Steps: (1) clean copy: demo must exit 0; (2) patch applied: repository tests must pass and the
demo must exit non-zero; (3) each named check (default: the property in meta.json) is run in
the quick tier (MUT_TIER=thorough for the other) with VERIF_REPO pointing at the patched copy.
Prints one JSON line; the scratch copy is removed afterwards."""
import json
import os
import shutil
import subprocess
import sys
import tempfile

PY = "/venv/bin/python"


def run(cmd, cwd=None, env=None, timeout=3600):
    try:
        r = subprocess.run(cmd, cwd=cwd, env=env, capture_output=True, text=True, timeout=timeout)
        return r.returncode, r.stdout, r.stderr
    except subprocess.TimeoutExpired:
        return 124, "", "timeout"


def main():
    seed = os.path.abspath(sys.argv[1])
    meta = json.load(open(os.path.join(seed, "meta.json")))
    checks = sys.argv[2:] or [meta["property"]]
    tier = os.environ.get("MUT_TIER") or meta.get("tier", "quick")      # a seed may need the thorough tier
    tmp = tempfile.mkdtemp(prefix="seed_")
    out = {"seed": seed, "property": meta["property"]}
    try:
        for name in ("plotink", "test"):
            shutil.copytree(os.path.join("/repo", name), os.path.join(tmp, name))
        for name in ("setup.py", "README.md"):
            if os.path.exists(os.path.join("/repo", name)):
                shutil.copy(os.path.join("/repo", name), tmp)
        env = dict(os.environ, PYTHONDONTWRITEBYTECODE="1", PYTHONHASHSEED="0")
        demo = os.path.join(seed, "demo.py")
        rc, so, se = run([PY, demo, tmp], cwd=tmp, env=env, timeout=600)
        out["demo_clean_exit"] = rc
        if rc != 0:
            out["demo_clean_output"] = (so + se)[-400:]
        rc, so, se = run(["patch", "-p1", "--no-backup-if-mismatch", "-i", os.path.join(seed, "patch.diff")], cwd=tmp)
        out["patch_applies"] = rc == 0
        if rc != 0:
            out["patch_output"] = (so + se)[-400:]
            print(json.dumps(out))
            return 2
        rc, so, se = run([PY, "-m", "pytest", "-q", "-p", "no:cacheprovider", "test"], cwd=tmp, env=env, timeout=900)
        out["tests"] = so.strip().splitlines()[-1] if so.strip() else se[-200:]
        out["tests_pass"] = rc == 0
        rc, so, se = run([PY, demo, tmp], cwd=tmp, env=env, timeout=600)
        out["demo_patched_exit"] = rc
        out["demo_patched_says"] = (so + se).strip().splitlines()[-1][:300] if (so + se).strip() else ""
        out["checks"] = {}
        for chk in checks:
            env2 = dict(env, VERIF_REPO=tmp, VERIF_EVIDENCE_DIR=os.path.join(tmp, "evidence"),
                        VERIF_REPLAY_DIR=os.path.join(tmp, "replays"))
            if os.environ.get("SEED_VERIF_SEED"):
                env2["VERIF_SEED"] = os.environ["SEED_VERIF_SEED"]
            rc, so, se = run([os.path.join(os.path.dirname(os.path.dirname(os.path.abspath(__file__))), "check"), chk, "--tier", tier], env=env2, timeout=7200)
            lines = so.strip().splitlines()
            kinds = {}
            for ln in lines:
                if ln.startswith("  kind="):
                    k = ln[7:].split(" witness=")[0]
                    kinds[k] = kinds.get(k, 0) + 1
            out["checks"][chk] = {"exit": rc, "violation_lines": sum(1 for l in lines if l.startswith("VIOLATION")),
                                  "kinds": kinds, "last": lines[-1][:200] if lines else se[-300:]}
    finally:
        shutil.rmtree(tmp, ignore_errors=True)
    print(json.dumps(out))
    return 0


if __name__ == "__main__":
    sys.exit(main())
