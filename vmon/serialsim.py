"""Device-boundary instruments for the serial layers.

* EventLog  - one ordered log per scenario; the port and the client-boundary monitor both
              append to it, so the order of call / write / read / return events is the real one.
* FaultPlan - JSON-able description of faults, placed by I/O index inside an *armed window*
              (the harness arms the plan right before the call under test, so "read 2" means the
              third readline() of that call).
* FakePort  - pyserial-shaped object handed to the code under test.
* Ebb3Board / Legacy2xBoard - conforming device models (state + replies).  Every reply that has
              a free-form payload carries the id of the request that caused it, so "which request
              does this text belong to" is unambiguous.

Nothing here imports the code under test."""
from collections import deque

import serial

def make_exc(name, text):
    if name.startswith("OSError:"):
        # an OSError carrying an errno: Python turns these into the matching subclass
        # (EINTR -> InterruptedError, EAGAIN -> BlockingIOError, EPIPE -> BrokenPipeError, ...), which
        # is what a file-descriptor level read()/write() under pyserial really raises
        import errno
        return OSError(getattr(errno, name.split(":", 1)[1]), text)
    cls = EXC[name]
    try:
        return cls(text)
    except TypeError:           # PortNotOpenError takes no message
        return cls()


EXC = {
    "SerialException": serial.SerialException,
    "SerialTimeoutException": serial.SerialTimeoutException,
    "PortNotOpenError": serial.serialutil.PortNotOpenError,
    "OSError": OSError,
    "IOError": IOError,
}
# OSError family by errno: "interrupted, try again" style codes are the ones a well-meaning retry loop
# singles out, the others are what an unplugged / reset USB device produces
OS_ERRNO_EXC = ("OSError:EINTR", "OSError:EAGAIN", "OSError:EIO", "OSError:EPIPE", "OSError:ENODEV",
                "OSError:ETIMEDOUT", "OSError:ECONNRESET", "OSError:EBADF", "OSError:EACCES")


class EventLog:
    def __init__(self):
        self.events = []

    def add(self, kind, **kw):
        ev = {"seq": len(self.events), "kind": kind}
        ev.update(kw)
        self.events.append(ev)
        return ev

    def mark(self):
        return len(self.events)

    def since(self, mark):
        return self.events[mark:]

    def dump(self, limit=60):
        out = []
        for ev in self.events[-limit:]:
            item = {}
            for k, v in ev.items():
                if isinstance(v, bytes):
                    v = v.decode("latin-1")
                item[k] = v if isinstance(v, (int, str, bool, type(None), list, dict)) else repr(v)
            out.append(item)
        return out


class FaultPlan:
    """faults: list of dicts
         {"op": "read"|"write", "at": n, "kind": K, ...}
       kinds for reads:
         "empty"    + "count": k   k empty reads are delivered before the pending line
         "silence"                 the device stops answering: this and every later read of the
                                   window is empty and pending output is dropped
         "line"     + "data": str  the pending line (if any) is replaced by this text
         "raise"    + "exc": name  readline raises
       kinds for writes:
         "raise"    + "exc": name  write raises (the device receives nothing)
    """

    def __init__(self, faults=None):
        self.faults = list(faults or [])
        self.armed = False
        self.reads = 0
        self.writes = 0
        self.closes = 0
        self.resets = 0
        self.pending_empty = 0
        self.silent = False
        self.hits = []

    def arm(self):
        self.armed = True
        self.reads = self.writes = 0
        self.closes = self.resets = 0
        self.pending_empty = 0
        self.silent = False
        self.hits = []

    def disarm(self):
        self.armed = False
        self.silent = False
        self.pending_empty = 0

    def _find(self, op, idx):
        for f in self.faults:
            if f["op"] == op and f["at"] == idx:
                return f
        return None

    def on_write(self):
        if not self.armed:
            return None
        idx, self.writes = self.writes, self.writes + 1
        f = self._find("write", idx)
        if f is not None:
            self.hits.append(f)
        return f

    def on_other(self, op):
        """op in ('close', 'reset'): faults placed on close() / reset_input_buffer()."""
        if not self.armed:
            return None
        idx = getattr(self, op + "s" if op == "close" else "resets")
        if op == "close":
            self.closes += 1
        else:
            self.resets += 1
        f = self._find(op, idx)
        if f is not None:
            self.hits.append(f)
        return f

    def on_read(self):
        if not self.armed:
            return None
        idx, self.reads = self.reads, self.reads + 1
        f = self._find("read", idx)
        if f is not None:
            self.hits.append(f)
        return f


class FakePort:
    """What the code under test sees as the serial port."""

    def __init__(self, board, log, plan=None, name="fake0"):
        self.board = board
        self.log = log
        self.plan = plan or FaultPlan()
        self.name = name
        self.port = name
        self.is_open = True
        self.timeout = 1.0
        self.latency = 0.0         # seconds every readline() really takes (a slow link); 0 = immediate
        self.on_io = None          # optional callback(kind, event) for online monitors

    # -- pyserial API used by plotink ---------------------------------------------------
    def write(self, data):
        ev = self.log.add("write", data=bytes(data), port=self.name)
        if self.on_io:
            self.on_io("write", ev)
        if not self.is_open:
            ev["raised"] = "PortNotOpenError"
            raise serial.serialutil.PortNotOpenError()
        f = self.plan.on_write()
        if f is not None and f["kind"] == "raise":
            ev["raised"] = f["exc"]
            raise make_exc(f["exc"], "injected write fault")
        self.board.receive(bytes(data))
        return len(data)

    def readline(self):
        if self.latency:
            import time
            time.sleep(self.latency)
        ev = self.log.add("read", port=self.name)
        if self.on_io:
            self.on_io("read", ev)
        if not self.is_open:
            ev["raised"] = "PortNotOpenError"
            raise serial.serialutil.PortNotOpenError()
        plan = self.plan
        f = plan.on_read()
        if f is not None:
            kind = f["kind"]
            if kind == "raise":
                ev["raised"] = f["exc"]
                raise make_exc(f["exc"], "injected read fault")
            if kind == "empty":
                plan.pending_empty += f["count"]
            elif kind == "silence":
                plan.silent = True
                self.board.out.clear()
            elif kind == "line":
                if self.board.out:
                    self.board.out.popleft()
                text = f["data"]
                if "{name}" in text:        # error line that echoes the name of the last request
                    last = self.board.requests[-1]["text"] if self.board.requests else "QG"
                    text = text.replace("{name}", split_request(last)[0])
                data = text.encode("latin-1")
                ev["data"] = data
                ev["injected"] = True
                return data
        if plan.armed and plan.silent:
            self.board.out.clear()
            ev["data"] = b""
            return b""
        if plan.armed and plan.pending_empty > 0:
            plan.pending_empty -= 1
            ev["data"] = b""
            return b""
        data = self.board.out.popleft() if self.board.out else b""
        ev["data"] = data
        return data

    def close(self):
        ev = self.log.add("close", port=self.name)
        f = self.plan.on_other("close")
        if f is not None and f["kind"] == "raise":
            ev["raised"] = f["exc"]
            raise make_exc(f["exc"], "injected close fault")
        self.is_open = False

    def reset_input_buffer(self):
        ev = self.log.add("reset_input", port=self.name)
        if not self.is_open:
            raise serial.serialutil.PortNotOpenError()
        f = self.plan.on_other("reset")
        if f is not None and f["kind"] == "raise":
            ev["raised"] = f["exc"]
            raise make_exc(f["exc"], "injected reset_input_buffer fault")
        self.board.out.clear()

    flushInput = reset_input_buffer


def split_request(text):
    """(name, [args]) of one request line (without the CR)."""
    parts = text.strip().split(",")
    return parts[0], parts[1:]


class BoardBase:
    def __init__(self):
        self.out = deque()
        self.requests = []      # every request line received: {"id", "text", "replies"}
        self.rx_partial = b""

    def receive(self, data):
        self.rx_partial += data
        while b"\r" in self.rx_partial:
            line, self.rx_partial = self.rx_partial.split(b"\r", 1)
            text = line.decode("latin-1")
            req = {"id": len(self.requests), "text": text, "replies": []}
            self.requests.append(req)
            lines = self.handle(req)
            hook = getattr(self, "reply_hook", None)
            if hook is not None:
                lines = hook(req, lines)
            for reply in lines:
                req["replies"].append(reply)
                self.out.append(reply)

    def handle(self, req):      # pragma: no cover - abstract
        raise NotImplementedError


RES_TO_QE = {1: 16, 2: 8, 3: 4, 4: 2, 5: 1}


class Ebb3Board(BoardBase):
    """Conforming EBB with firmware >= 3: legacy syntax until CU,10,1, future syntax after.

    State: 32 RAM bytes (SL/QL), nickname (ST/QT), motor enables + global microstep mode with
    the documented EM semantics (the first EM argument, when non-zero, enables motor 1 and sets
    the global mode; the second only switches motor 2), step counters, port-B pins, pen.
    `eol` is the line ending the device uses; `pad` adds blanks around replies (stripped by a
    conforming reader)."""

    def __init__(self, version="3.0.2", nickname="", future=False, eol="\r\n", pad=False,
                 mode=1, en1=False, en2=False, product="EBBv13_and_above EB Firmware Version "):
        super().__init__()
        self.version = version
        self.product = product
        self.nickname = nickname
        self.future = future
        self.eol = eol
        self.pad = pad
        self.ram = [0] * 32
        self.mode, self.en1, self.en2 = mode, en1, en2
        self.steps = [0, 0]
        self.pins_b = [0] * 8
        self.dir_b = [0] * 8
        self.pen_up = True
        self.cu50 = None
        self.rebooted = False
        self.bootloader = False
        self.unknown = []
        self.reply_hook = None      # optional fn(req, default_lines) -> lines (framing workloads)

    def version_line(self):
        return self.product + self.version

    def _line(self, text):
        if self.pad:
            text = " " + text + " "
        return (text + self.eol).encode("latin-1")

    def handle(self, req):
        name, args = split_request(req["text"])
        uname = name.upper()
        rid = req["id"]
        if self.rebooted or self.bootloader:
            return []
        payload = None          # None: bare acknowledgement
        ok = True
        try:
            iargs = [int(a) for a in args] if all(a.strip().lstrip("+-").isdigit() for a in args) else None
        except ValueError:
            iargs = None
        if uname == "V":
            if not self.future:
                return [self._line(self.version_line())]
            payload = self.version_line()
        elif uname == "CU":
            if iargs and iargs[0] == 10:
                was = self.future
                self.future = bool(iargs[1])
                if not was:
                    return [self._line("OK")]
            elif iargs and iargs[0] == 50:
                self.cu50 = iargs[1]
        elif uname == "QT":
            payload = self.nickname.ljust(16) if self.nickname else ""
        elif uname == "ST":
            self.nickname = ",".join(args)[:16]
        elif uname == "SL":
            if iargs and len(iargs) == 2 and 0 <= iargs[1] < 32 and 0 <= iargs[0] <= 255:
                self.ram[iargs[1]] = iargs[0]
            elif iargs and len(iargs) == 1 and 0 <= iargs[0] <= 255:
                self.ram[0] = iargs[0]
            else:
                ok = False
        elif uname == "QL":
            idx = iargs[0] if iargs else 0
            if 0 <= idx < 32:
                payload = "%d" % self.ram[idx] if rid % 2 else "%03d" % self.ram[idx]
            else:
                ok = False
        elif uname == "EM":
            if iargs and 1 <= len(iargs) <= 2 and all(0 <= v <= 5 for v in iargs):
                if iargs[0] == 0:
                    self.en1 = False
                else:
                    self.en1 = True
                    self.mode = iargs[0]
                if len(iargs) == 2:
                    self.en2 = iargs[1] != 0
            else:
                ok = False
        elif uname == "QE":
            qe = RES_TO_QE[self.mode]
            payload = "%d,%d" % (qe if self.en1 else 0, qe if self.en2 else 0)
        elif uname == "QS":
            payload = "%d,%d" % (self.steps[0], self.steps[1])
        elif uname == "CS":
            self.steps = [0, 0]
        elif uname == "QC":
            payload = "%04d,%04d" % (394, 300 + rid % 50)
        elif uname == "QG":
            payload = "%02X" % (0x30 + rid % 16)
        elif uname == "PI":
            pin = iargs[1] if iargs and len(iargs) > 1 else (int(args[1]) if len(args) > 1 and args[1].strip().isdigit() else 0)
            payload = "%d" % self.pins_b[pin % 8]
        elif uname == "PO":
            if len(args) == 3 and args[0].upper() == "B":
                try:
                    self.pins_b[int(args[1]) % 8] = 1 if int(args[2]) else 0
                except ValueError:
                    ok = False
        elif uname == "PD":
            if len(args) == 3 and args[0].upper() == "B":
                try:
                    self.dir_b[int(args[1]) % 8] = int(args[2])
                except ValueError:
                    ok = False
        elif uname == "SP":
            if iargs:
                self.pen_up = bool(iargs[0])
        elif uname == "TP":
            self.pen_up = not self.pen_up
        elif uname == "QP":
            payload = "1" if self.pen_up else "0"
        elif uname == "QB":
            payload = "0"
        elif uname == "QM":
            payload = "0,0,0,0"
        elif uname == "SM":
            if iargs and len(iargs) >= 2:
                self.steps[0] += iargs[1]
                if len(iargs) > 2:
                    self.steps[1] += iargs[2]
        elif uname == "XM":
            if iargs and len(iargs) == 3:
                self.steps[0] += iargs[1] + iargs[2]
                self.steps[1] += iargs[1] - iargs[2]
        elif uname in ("HM", "LM", "LT", "T3", "L3", "SC", "SR", "SE", "ES", "TD", "S2", "PC", "PG", "NI", "ND"):
            pass
        elif uname == "RB":
            self.rebooted = True
            return []
        elif uname == "BL":
            self.bootloader = True
            return []
        else:
            self.unknown.append(req["text"])
            ok = False
        if not ok:
            lines = [self._line("%s,!8 Err: bad request (%d)" % (name, rid)) if self.future
                     else self._line("!8 Err: bad request (%d)" % rid)]
        elif self.future:
            lines = [self._line(name if payload is None else "%s,%s" % (name, payload))]
        else:
            lines = ([self._line(payload)] if payload is not None else []) + [self._line("OK")]
        return lines


NO_OK = ("a", "i", "mr", "pi", "qm", "qg", "v")


class Legacy2xBoard(BoardBase):
    """Conforming firmware-2.x board: data line then OK for ordinary queries, a single line for
    the documented no-OK queries, OK for commands.  Data lines carry the request id."""

    QUERIES = {"QP", "QB", "QS", "QC", "QL", "QT", "QN", "QR", "QE"}

    def __init__(self, version="2.8.1", nickname="", eol="\r\n",
                 product="EBBv13_and_above EB Firmware Version "):
        super().__init__()
        self.version = version
        self.product = product
        self.nickname = nickname
        self.eol = eol
        self.layer = 0
        self.pen_up = True
        self.steps = [0, 0]
        self.pins = {}
        self.en1 = self.en2 = False
        self.mode = 1
        self.rebooted = False
        self.data_of = {}       # request id -> data line text (without eol)

    def _line(self, text):
        return (text + self.eol).encode("latin-1")

    def handle(self, req):
        name, args = split_request(req["text"])
        uname, rid = name.upper(), req["id"]
        if self.rebooted:
            return []
        data = None
        if uname == "V":
            data = self.product + self.version
        elif uname == "QP":
            data = "1" if self.pen_up else "0"
        elif uname == "QB":
            data = "%d" % (rid % 2)
        elif uname == "QS":
            data = "%d,%d" % (self.steps[0], self.steps[1])
        elif uname == "QC":
            data = "%04d,%04d" % (394, 200 + rid % 150)
        elif uname == "QL":
            data = "%d" % self.layer
        elif uname == "QT":
            data = self.nickname.ljust(16) if self.nickname else " " * 16
        elif uname == "QN":
            data = "%d" % (1000 + rid)
        elif uname == "QR":
            data = "%d" % (rid % 2)
        elif uname == "QM":
            data = "QM,0,0,0,%d" % (rid % 2)
        elif uname == "QG":
            data = "%02X" % (rid % 256)
        elif uname == "PI":
            data = "PI,%d" % self.pins.get(",".join(a.strip().upper() for a in args), 0)
        elif uname == "MR":
            data = "MR,%d" % (rid % 256)
        elif uname == "A":
            data = "A,00:%04d" % (rid % 1024)
        elif uname == "I":
            data = "I,%03d,%03d,%03d,%03d,%03d" % (rid % 256, 1, 2, 3, 4)
        elif uname == "RB":
            self.rebooted = True
            return []
        else:
            self.apply(uname, args)
        if data is not None:
            self.data_of[rid] = data
            if uname.lower() in NO_OK:
                return [self._line(data)]
            return [self._line(data), self._line("OK")]
        return [self._line("OK")]

    def apply(self, uname, args):
        try:
            iargs = [int(a) for a in args]
        except ValueError:
            iargs = None
        if uname == "SL" and iargs:
            self.layer = iargs[0] % 256
        elif uname == "ST":
            self.nickname = ",".join(args)[:16]
        elif uname == "SP" and iargs:
            self.pen_up = bool(iargs[0])
        elif uname == "TP":
            self.pen_up = not self.pen_up
        elif uname == "SM" and iargs and len(iargs) == 3:
            self.steps[0] += iargs[1]
            self.steps[1] += iargs[2]
        elif uname == "EM" and iargs:
            if iargs[0]:
                self.en1, self.mode = True, iargs[0]
            else:
                self.en1 = False
            if len(iargs) > 1:
                self.en2 = bool(iargs[1])
            self.pins["E,0"] = 0 if self.en1 else 1
            self.pins["C,1"] = 0 if self.en2 else 1
            ms = {1: (1, 1, 1), 2: (1, 1, 0), 3: (0, 1, 0), 4: (1, 0, 0), 5: (0, 0, 0)}[self.mode if 1 <= self.mode <= 5 else 1]
            self.pins["E,2"], self.pins["E,1"], self.pins["A,6"] = ms


class SilentDevice(BoardBase):
    """A device that never answers (or answers with fixed lines to anything)."""

    def __init__(self, lines=()):
        super().__init__()
        self.lines = list(lines)

    def handle(self, req):
        return list(self.lines)
