"""Run context shared by all property monitors: counters, class histogram,
distinct-case accounting, witness/replay files, known-finding classification,
three-valued verdict and evidence output."""
import hashlib
import json
import os
import random
import sys
import time
from array import array

from . import boot

# the harness keeps its own handle on the real clock: the "clock" environment variant replaces
# time.time & co. for the code under test
_now = time.monotonic
BUDGET_SCALE = float(os.environ.get("VERIF_BUDGET_SCALE", "1"))

EVIDENCE_DIR = os.environ.get("VERIF_EVIDENCE_DIR") or os.path.join(boot.VERIF_DIR, "evidence")
REPLAY_DIR = os.environ.get("VERIF_REPLAY_DIR") or os.path.join(boot.VERIF_DIR, "replays")
FINDINGS_FILE = os.path.join(boot.VERIF_DIR, "known_findings.json")
DISTINCT_CAP = 400_000          # per process; evidence says so when the cap is hit
MAX_REPLAYS = 12                # witness files written per run (all violations are counted)
MAX_SAMPLES = 8

EXIT_HELD, EXIT_VIOLATED, EXIT_INCONCLUSIVE = 0, 1, 2


def jsonable(obj):
    """Best-effort conversion of a witness to JSON (exact ints kept as ints;
    floats as repr strings inside {'f': ...} would lose nothing but readability,
    so floats are kept as floats and their hex form added by callers that need it)."""
    if isinstance(obj, (str, int, bool)) or obj is None:
        return obj
    if isinstance(obj, float):
        if obj != obj or obj in (float("inf"), float("-inf")):
            return repr(obj)
        return obj
    if isinstance(obj, bytes):
        return {"bytes": obj.decode("latin-1")}
    if isinstance(obj, dict):
        return {str(k): jsonable(v) for k, v in obj.items()}
    if isinstance(obj, (list, tuple, set, frozenset)):
        return [jsonable(v) for v in obj]
    return repr(obj)


class Findings:
    """Read-only view of known_findings.json (never written at run time)."""

    def __init__(self, path=FINDINGS_FILE):
        self.entries = []
        if os.path.exists(path):
            with open(path) as fh:
                self.entries = json.load(fh)["findings"]

    def known(self, prop, mechanism):
        for ent in self.entries:
            if ent["property"] == prop and ent["mechanism"] == mechanism \
                    and ent["status"] == "known":
                return ent
        return None


class Ctx:
    def __init__(self, prop, tier, seed, shard=0, nshards=1, level="exploration",
                 wall_limit=None, replay_mode=False):
        self.prop = prop
        self.tier = tier
        self.seed = seed
        self.shard = shard
        self.nshards = nshards
        self.level = level
        self.replay_mode = replay_mode
        self.rng = random.Random("%s/%d/%d/%s" % (prop, seed, shard, tier))
        self.t0 = _now()
        self.wall_limit = wall_limit or (600 if tier == "quick" else 5400)
        self.evaluations = 0
        self.distinct = set()
        self.distinct_capped = False
        self.classes = {}
        self.counters = {}
        self.samples = []
        self._sample_tags = {}
        self.thresholds = {}
        self.violations = 0
        self.violation_records = []
        self.known_hits = {}
        self.oracle_faults = []
        self.notes = []
        self.watchdog = False
        self.rule = ""
        self.assumptions = []
        self.extra = {}
        self.findings = Findings()
        self.classify = None        # set by the property module: witness -> mechanism | None
        self.exhaustive = None
        self.variant = None         # environment variant of this process (vmon/envs.py)
        self.reach = None           # {file: [lines reached]} from reach.stop()
        self.recent_noise = None    # set by noise.burst(): calls to OTHER library functions just made
        self._noise_age = 0

    # ---- budgets -------------------------------------------------------
    def budget(self, quick, thorough=None):
        """Number of cases for THIS process. thorough budgets are per shard."""
        n = quick if self.tier == "quick" else (thorough if thorough is not None else quick * 20)
        if BUDGET_SCALE != 1:
            n = max(1, int(n * BUDGET_SCALE))
        return n

    def alive(self):
        if _now() - self.t0 > self.wall_limit:
            self.watchdog = True
            return False
        return True

    # ---- accounting ----------------------------------------------------
    def case(self, cls, key=None, nontrivial=True):
        """One evaluated case of input class `cls`; `key` (hashable) identifies it."""
        self.evaluations += 1
        if self.recent_noise is not None:
            self._noise_age += 1
            if self._noise_age > 3:     # the history is attributed to the next three cases only
                self.recent_noise = None
        if isinstance(cls, (list, tuple)):
            for c in cls:
                self.classes[c] = self.classes.get(c, 0) + 1
        else:
            self.classes[cls] = self.classes.get(cls, 0) + 1
        if nontrivial and key is not None:
            if len(self.distinct) < DISTINCT_CAP:
                if self.nshards > 1:
                    # shards run under different string-hash seeds: use a digest that does not depend on it,
                    # so that the union over shards counts a key once
                    self.distinct.add(int.from_bytes(hashlib.blake2b(repr(key).encode("utf-8", "replace"),
                                                                     digest_size=7).digest(), "big"))
                else:
                    self.distinct.add(hash(key))
            else:
                self.distinct_capped = True

    def tag(self, cls, k=1):
        """Class observation that is not a new evaluation."""
        self.classes[cls] = self.classes.get(cls, 0) + k

    def count(self, name, k=1):
        self.counters[name] = self.counters.get(name, 0) + k

    def need(self, cls, quick, thorough=None):
        """Run is inconclusive unless class/counter `cls` reached this count."""
        n = quick if self.tier == "quick" else (thorough if thorough is not None else quick)
        if BUDGET_SCALE != 1:
            return      # reduced-budget environment variant: its classes are added to the main run's
        self.thresholds[cls] = n

    def sample(self, obj, tag="case", per_tag=2):
        k = self._sample_tags.get(tag, 0)
        if k < per_tag and len(self.samples) < MAX_SAMPLES * 4:
            self._sample_tags[tag] = k + 1
            self.samples.append({"class": tag, "case": jsonable(obj)})

    def note(self, text):
        if text not in self.notes:
            self.notes.append(text)

    # ---- verdict events ------------------------------------------------
    def violation(self, kind, witness):
        """A witness produced by the real code that refutes the property."""
        if self.recent_noise is not None and isinstance(witness, dict) \
                and "after_other_library_calls" not in witness:
            witness = dict(witness, after_other_library_calls=self.recent_noise)
        rec = {"property": self.prop, "kind": kind, "witness": jsonable(witness)}
        mech = self.classify(rec) if self.classify else None
        if mech is not None:
            ent = self.findings.known(self.prop, mech)
            if ent is not None:
                hit = self.known_hits.setdefault(mech, {"count": 0, "what": ent["what"],
                                                        "example": rec["witness"]})
                hit["count"] += 1
                return False
        self.violations += 1
        self.count("violation-kind:" + kind)
        if len(self.violation_records) < MAX_REPLAYS:
            blob = json.dumps(rec, sort_keys=True, default=repr)
            digest = hashlib.sha1(blob.encode()).hexdigest()[:12]
            path = os.path.join(REPLAY_DIR, self.prop, digest + ".json")
            if not self.replay_mode:
                os.makedirs(os.path.dirname(path), exist_ok=True)
                with open(path, "w") as fh:
                    fh.write(blob)
            rec["replay"] = path
            self.violation_records.append(rec)
            print("VIOLATION property=%s replay=%s" % (self.prop, path))
            print("  kind=%s witness=%s" % (kind, blob[:600]))
            sys.stdout.flush()
        return True

    def oracle_fault(self, what, witness=None):
        """The reference model disagreed with its own literal self-check: the
        monitor, not the code under test, is broken. Loud and inconclusive."""
        if len(self.oracle_faults) < 10:
            self.oracle_faults.append({"what": what, "witness": jsonable(witness)})
        print("ORACLE-FAULT property=%s %s %s" % (self.prop, what, jsonable(witness)))

    # ---- output --------------------------------------------------------
    def unmet(self):
        out = {}
        for cls, n in self.thresholds.items():
            got = self.classes.get(cls, self.counters.get(cls, 0))
            if got < n:
                out[cls] = {"need": n, "got": got}
        return out

    def part(self):
        """Serializable state (one shard)."""
        return {
            "prop": self.prop, "tier": self.tier, "seed": self.seed, "shard": self.shard,
            "nshards": self.nshards, "level": self.level,
            "evaluations": self.evaluations, "distinct_capped": self.distinct_capped,
            "classes": self.classes, "counters": self.counters, "samples": self.samples,
            "thresholds": self.thresholds, "violations": self.violations,
            "violation_records": self.violation_records, "known_hits": self.known_hits,
            "oracle_faults": self.oracle_faults, "notes": self.notes,
            "watchdog": self.watchdog, "rule": self.rule, "assumptions": self.assumptions,
            "extra": self.extra, "wall_s": _now() - self.t0,
            "exhaustive": self.exhaustive, "reach": self.reach,
        }


def merge_parts(parts, distinct_sets):
    """Combine shard states into one (thresholds are scaled by the parent)."""
    base = dict(parts[0])
    classes, counters, known = {}, {}, {}
    for p in parts:
        for k, v in p["classes"].items():
            classes[k] = classes.get(k, 0) + v
        for k, v in p["counters"].items():
            counters[k] = counters.get(k, 0) + v
        for k, v in p["known_hits"].items():
            if k in known:
                known[k]["count"] += v["count"]
            else:
                known[k] = dict(v)
    base["classes"], base["counters"], base["known_hits"] = classes, counters, known
    base["evaluations"] = sum(p["evaluations"] for p in parts)
    base["violations"] = sum(p["violations"] for p in parts)
    base["violation_records"] = [r for p in parts for r in p["violation_records"]][:MAX_REPLAYS * 2]
    base["oracle_faults"] = [r for p in parts for r in p["oracle_faults"]][:20]
    base["notes"] = sorted({n for p in parts for n in p["notes"]})
    base["watchdog"] = any(p["watchdog"] for p in parts)
    base["distinct_capped"] = any(p["distinct_capped"] for p in parts)
    base["samples"] = [s for p in parts for s in p["samples"][:2]][:MAX_SAMPLES * 2] \
        if len(parts) > 1 else parts[0]["samples"][:MAX_SAMPLES * 2]
    extra = {}
    for p in parts:
        for k, v in p["extra"].items():
            if isinstance(v, (int, float)) and not isinstance(v, bool) and isinstance(extra.get(k, 0), (int, float)):
                extra[k] = extra.get(k, 0) + v
            elif isinstance(v, list) and isinstance(extra.get(k, []), list):
                merged = extra.get(k, [])
                for item in v:
                    if item not in merged:
                        merged.append(item)
                extra[k] = merged
            else:
                extra.setdefault(k, v)
    base["extra"] = extra
    base["exhaustive"] = all(p.get("exhaustive") for p in parts) if parts[0].get("exhaustive") is not None else None
    union = set()
    for s in distinct_sets:
        union |= s
    base["distinct"] = len(union)
    reach = None
    for p in parts:
        if p.get("reach") is not None:
            reach = reach or {}
            for path, lines in p["reach"].items():
                reach[path] = sorted(set(reach.get(path, ())) | set(lines))
    base["reach"] = reach
    return base


def finish(state, wall_s, failed_shards=0):
    """Write evidence/<id>.json, print the summary, return the exit code."""
    prop = state["prop"]
    unmet = {}
    for cls, n in state["thresholds"].items():
        got = state["classes"].get(cls, state["counters"].get(cls, 0))
        if got < n:
            unmet[cls] = {"need": n, "got": got}
    line_reach, unreached, never_entered = None, [], []
    if state.get("reach") is not None:
        from . import reach as _reach
        try:
            line_reach, unreached = _reach.report(state["reach"], prop)
            import importlib
            exempt = getattr(importlib.import_module("vmon.props." + prop), "REACH_EXEMPT", {})
            if exempt:
                line_reach["not_expected_to_be_entered"] = exempt
                unreached = [u for u in unreached if u.split(":")[-1].split(".")[-1] not in exempt]
            never_entered = list(unreached)
            # a helper the code no longer calls is dead code, not blindness of the monitor (refactors do
            # that): the run is inconclusive only when NOTHING the anchors name was executed
            reached_any = any(f.get("anchored_functions_reached", 0) for f in line_reach.values()
                              if isinstance(f, dict))
            if reached_any:
                unreached = []
        except Exception as exc:      # reach is evidence about the workload; its failure is never a verdict
            line_reach = {"error": repr(exc)}
    if state["violations"] > 0:
        verdict, code = "violated", EXIT_VIOLATED
    elif state["oracle_faults"] or unmet or unreached or failed_shards or state["evaluations"] == 0:
        verdict, code = "inconclusive", EXIT_INCONCLUSIVE
    else:
        verdict, code = "held_on_observed", EXIT_HELD
    for mech, hit in sorted(state["known_hits"].items()):
        print("KNOWN-FINDING: property=%s %s [mechanism=%s, hit %d times this run]"
              % (prop, hit["what"], mech, hit["count"]))
    coverage = {
        "evaluations": state["evaluations"],
        "distinct_nontrivial": state["distinct"],
        "rule": state["rule"] + (" (distinct counted on a capped prefix of %d cases per process: lower bound)"
                                 % DISTINCT_CAP if state["distinct_capped"] else ""),
        "samples": state["samples"] or [{"class": "none", "case": None}],
        "classes_observed": dict(sorted(state["classes"].items())),
        "monitor_counters": dict(sorted(state["counters"].items())),
        "thresholds_for_conclusive": state["thresholds"],
        "thresholds_unmet": unmet,
        "known_finding_hits": {k: v["count"] for k, v in state["known_hits"].items()},
        "oracle_faults": state["oracle_faults"],
        "violation_witnesses": [r.get("replay") for r in state["violation_records"]],
        "watchdog_fired": state["watchdog"],
        "failed_shards": failed_shards,
        "shards": state["nshards"],
        "notes": state["notes"],
        "verdict": verdict,
    }
    if state.get("exhaustive") is not None:
        coverage["exhaustive"] = bool(state["exhaustive"])
    if line_reach is not None:
        coverage["line_reach_of_anchored_code"] = line_reach
        coverage["anchored_functions_never_entered"] = never_entered
    coverage.update(state["extra"])
    evidence = {
        "property_id": prop, "tier": state["tier"], "seed": state["seed"],
        "level": state["level"], "coverage": coverage,
        "assumptions": state["assumptions"], "wall_s": round(wall_s, 3),
        "violations": state["violations"],
    }
    os.makedirs(EVIDENCE_DIR, exist_ok=True)
    path = os.path.join(EVIDENCE_DIR, prop + ".json")
    tmp = path + ".tmp.%d" % os.getpid()
    with open(tmp, "w") as fh:
        json.dump(evidence, fh, indent=1, sort_keys=False, default=repr)
        fh.write("\n")
    os.replace(tmp, path)
    try:
        import jsonschema
        with open("/root/.vp/EVIDENCE.schema.json") as fh:
            jsonschema.validate(evidence, json.load(fh))
    except ImportError:
        pass
    except FileNotFoundError:
        pass
    print("%s tier=%s seed=%d verdict=%s evaluations=%d distinct=%d violations=%d known=%s wall=%.1fs"
          % (prop, state["tier"], state["seed"], verdict, state["evaluations"], state["distinct"],
             state["violations"], {k: v["count"] for k, v in state["known_hits"].items()}, wall_s))
    if unreached:
        print("INCONCLUSIVE: anchored functions of which no line was executed: %s" % unreached)
    if unmet:
        print("INCONCLUSIVE: classes below threshold: %s" % unmet)
    if state["oracle_faults"]:
        print("INCONCLUSIVE: oracle self-check failed (monitor fault, not a verdict on the code)")
    if failed_shards:
        print("INCONCLUSIVE: %d shard(s) crashed or timed out" % failed_shards)
    return code


def save_distinct(ctx, path):
    arr = array("q", [h for h in ctx.distinct])
    with open(path, "wb") as fh:
        arr.tofile(fh)


def load_distinct(path):
    arr = array("q")
    size = os.path.getsize(path) // arr.itemsize
    with open(path, "rb") as fh:
        arr.fromfile(fh, size)
    return set(arr)
