"""Process bootstrap: import path for the code under test and for the offline deps.

The code under test is ALWAYS imported from the working tree named by VERIF_REPO
(default /repo) in a fresh interpreter, never from an installed copy: the repo
directory is put first on sys.path and the origin of the imported package is
verified (a check that silently monitors some other copy decides nothing).
"""
import os
import subprocess
import sys

VERIF_DIR = os.path.dirname(os.path.dirname(os.path.abspath(__file__)))
REPO_DIR = os.environ.get("VERIF_REPO", "/repo")
DEPS_DIR = os.path.join(VERIF_DIR, ".deps")
WHEELS = "/opt/veriftools/wheels"
DEPS = ["icontract", "jsonschema"]


def ensure_deps():
    """Install the (pure offline) third-party monitor libraries if absent."""
    marker = os.path.join(DEPS_DIR, "icontract", "__init__.py")
    if not os.path.exists(marker):
        import fcntl
        os.makedirs(DEPS_DIR, exist_ok=True)
        with open(os.path.join(DEPS_DIR, ".lock"), "w") as lock:
            fcntl.flock(lock, fcntl.LOCK_EX)
            if not os.path.exists(marker):
                env = dict(os.environ, PIP_NO_INDEX="1", PIP_DISABLE_PIP_VERSION_CHECK="1")
                subprocess.run(
                    [sys.executable, "-m", "pip", "install", "-q", "--no-index",
                     "--find-links", WHEELS, "--target", DEPS_DIR] + DEPS,
                    check=True, env=env, stdout=subprocess.DEVNULL)
    if DEPS_DIR not in sys.path:
        sys.path.insert(1, DEPS_DIR)


def setup_paths():
    # the repo working tree first, so `import plotink` is the tree under test
    if sys.path[0] != REPO_DIR:
        sys.path.insert(0, REPO_DIR)
    ensure_deps()
    os.chdir(VERIF_DIR)  # from_dependency_import() looks at cwd; keep it fixed
    import plotink
    origin = os.path.dirname(os.path.abspath(plotink.__file__))
    want = os.path.join(os.path.realpath(REPO_DIR), "plotink")
    if os.path.realpath(origin) != want:
        raise SystemExit("boot: plotink imported from %s, expected %s" % (origin, want))
    return origin
