"""Thin layer over icontract: attach recording post-conditions (and snapshots) to the
REAL functions by replacing module / class attributes, count every evaluation.

Conditions *record and return True* (a raising contract would abort the execution
it observes and hide later violations); the verdict is taken from the run context.
References bound before decoration bypass a contract, so every deciding contract has
an evaluation counter and zero evaluations makes the run inconclusive."""
import functools

import icontract

_installed = []


class ContractError(Exception):
    pass


def install(owner, name, post=None, snapshots=None, pre=None, counter=None, ctx=None):
    """Replace owner.name by an icontract-decorated version of the same function.

    post(…args by name…, result[, OLD]) is called after each call; snapshots is a
    dict name -> capture(args by name) evaluated before the call and available as
    OLD.<name>.  Exceptions escaping the function are reported to
    ctx.count('<counter>.raised') by a plain wrapper outside icontract (icontract
    does not evaluate post-conditions after a raise)."""
    original = getattr(owner, name)
    func = original
    label = counter or ("%s.%s" % (getattr(owner, "__name__", owner), name))
    if post is not None:
        func = icontract.ensure(post, error=ContractError)(func)
    if snapshots:
        for snap_name, capture in snapshots.items():
            func = icontract.snapshot(capture, name=snap_name)(func)
    if pre is not None:
        func = icontract.require(pre, error=ContractError)(func)
    decorated = func

    @functools.wraps(original)
    def counted(*args, **kwargs):
        if ctx is not None:
            ctx.count("contract:" + label)
        return decorated(*args, **kwargs)

    counted.__verif_original__ = original
    setattr(owner, name, counted)
    _installed.append((owner, name, original))
    return counted


def uninstall_all():
    while _installed:
        owner, name, original = _installed.pop()
        setattr(owner, name, original)
