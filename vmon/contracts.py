"""Thin layer over icontract: attach recording post-conditions (and snapshots) to the
REAL functions by replacing module / class attributes, count every evaluation.

Conditions *record and return True* (a raising contract would abort the execution
it observes and hide later violations); the verdict is taken from the run context.
References bound before decoration bypass a contract, so every deciding contract has
an evaluation counter and zero evaluations makes the run inconclusive."""
import functools

import icontract

_installed = []
FRESH_THREAD_EVERY = 0      # set by the "thread" environment variant: every n-th monitored call in a new thread
_calls = [0]


def _in_fresh_thread(fn, args, kwargs):
    import threading
    box = {}

    def target():
        try:
            box["result"] = fn(*args, **kwargs)
        except BaseException as exc:      # noqa: B902 - re-raised in the calling thread
            box["error"] = exc
    t = threading.Thread(target=target, name="verif-fresh")
    t.start()
    t.join()
    if "error" in box:
        raise box["error"]
    return box.get("result")


class ContractError(Exception):
    pass


def _positional_adapter(original, fn, special=("result", "OLD")):
    """Adapt a monitor function written with the parameter names the function under test had when the
    monitor was written (e.g. post(rate, accel, time, accum, result)) to icontract's name-independent
    protocol (_ARGS, _KWARGS): values are bound to the CURRENT signature and handed over by position,
    so renaming a parameter or appending a private one in the code under test is not a monitor fault."""
    import inspect
    try:
        sig = inspect.signature(original)
    except (TypeError, ValueError):
        sig = None
    params = list(inspect.signature(fn).parameters)
    n_plain = len([p for p in params if p not in special])
    wants = [p for p in params if p in special]

    def values(args, kwargs):
        if sig is not None:
            try:
                bound = sig.bind(*args, **kwargs)
                bound.apply_defaults()
                vals = list(bound.arguments.values())
            except TypeError:
                vals = list(args) + list(kwargs.values())
        else:
            vals = list(args) + list(kwargs.values())
        vals = vals[:n_plain]
        return vals + [None] * (n_plain - len(vals))

    if wants == ["result", "OLD"] or wants == ["OLD", "result"]:
        def cond(_ARGS, _KWARGS, result, OLD):
            return fn(*values(_ARGS, _KWARGS), result=result, OLD=OLD)
    elif wants == ["result"]:
        def cond(_ARGS, _KWARGS, result):
            return fn(*values(_ARGS, _KWARGS), result=result)
    elif wants == ["OLD"]:
        def cond(_ARGS, _KWARGS, OLD):
            return fn(*values(_ARGS, _KWARGS), OLD=OLD)
    else:
        def cond(_ARGS, _KWARGS):
            return fn(*values(_ARGS, _KWARGS))
    return cond


def install(owner, name, post=None, snapshots=None, pre=None, counter=None, ctx=None):
    """Replace owner.name by an icontract-decorated version of the same function.

    post(...positional arguments in the function's order..., result[, OLD]) is called after each
    call; snapshots is a dict name -> capture(...arguments...) evaluated before the call and available
    as OLD.<name>.  The monitor functions are bound BY POSITION (see _positional_adapter).
    Exceptions escaping the function are reported to ctx.count('<counter>.raised') by a plain wrapper
    outside icontract (icontract does not evaluate post-conditions after a raise)."""
    original = getattr(owner, name)
    func = original
    label = counter or ("%s.%s" % (getattr(owner, "__name__", owner), name))
    if post is not None:
        func = icontract.ensure(_positional_adapter(original, post), error=ContractError, enabled=True)(func)
    if snapshots:
        for snap_name, capture in snapshots.items():
            func = icontract.snapshot(_positional_adapter(original, capture), name=snap_name, enabled=True)(func)
    if pre is not None:
        func = icontract.require(_positional_adapter(original, pre), error=ContractError, enabled=True)(func)
    decorated = func

    @functools.wraps(original)
    def counted(*args, **kwargs):
        if ctx is not None:
            ctx.count("contract:" + label)
        if FRESH_THREAD_EVERY and _calls.__setitem__(0, _calls[0] + 1) is None and _calls[0] % FRESH_THREAD_EVERY == 0:
            # "thread" environment variant: this call is made from a thread that has never called into the
            # library before (its first call there), and the monitor evaluates it as usual
            if ctx is not None:
                ctx.count("environment: monitored call made from a fresh thread")
            return _in_fresh_thread(decorated, args, kwargs)
        return decorated(*args, **kwargs)

    counted.__verif_original__ = original
    setattr(owner, name, counted)
    _installed.append((owner, name, original))
    return counted


def uninstall_all():
    while _installed:
        owner, name, original = _installed.pop()
        setattr(owner, name, original)
