"""Seeded, class-stratified generators for the stepper-motion properties (C01-C03, C17)."""
from .oracles import stepper as S

M, RMAX = S.M, S.RMAX

AMBIENT = [("dps", 3), ("dps", 15), ("dps", 30), ("dps", 50), ("dps", 200),
           ("prec", 24), ("prec", 53), ("prec", 64), ("workdps", 5), ("workdps", 100),
           ("workprec", 20),
           # precisions right around what the exact totals need (products of 32-bit numbers: 62..66 bits):
           # a conditional "raise the precision only if it is too low" with a threshold one bit short lives here
           ("prec", 61), ("prec", 62), ("prec", 63), ("prec", 64), ("prec", 65), ("prec", 66), ("dps", 18), ("dps", 19),
           ("dps", 20),
           # the caller's `decimal` context is an ambient arbitrary-precision setting as well
           ("decimal", 9), ("decimal", 5), ("decimal-trap-inexact", 28)]


class Ambient:
    """Leaves a caller-side mpmath precision behind before the monitored call."""

    def __init__(self, kind, value):
        self.kind, self.value = kind, value
        self._cm = None

    def __enter__(self):
        import mpmath
        if self.kind == "dps":
            mpmath.mp.dps = self.value
        elif self.kind == "prec":
            mpmath.mp.prec = self.value
        elif self.kind == "workdps":
            self._cm = mpmath.workdps(self.value)
            self._cm.__enter__()
        elif self.kind == "workprec":
            self._cm = mpmath.workprec(self.value)
            self._cm.__enter__()
        elif self.kind.startswith("decimal"):
            import decimal
            self._cm = decimal.localcontext()
            ctx = self._cm.__enter__()
            ctx.prec = self.value
            if self.kind == "decimal-trap-inexact":
                ctx.traps[decimal.Inexact] = True
                ctx.traps[decimal.Rounded] = True
        return self

    def __exit__(self, *exc):
        if self._cm is not None:
            self._cm.__exit__(*exc)
        return False

    def describe(self):
        return [self.kind, self.value]


IMPORT_SETTINGS = (("dps", 5), ("prec", 20), ("dps", 8), ("prec", 30), ("dps", 3), ("prec", 31), ("dps", 10))


def reload_ebb_calc(setting=None):
    """(Re)import plotink.ebb_calc while the caller's mpmath precision is `setting` (None: the
    mpmath default), then put the default precision back - 'the answer does not depend on the
    caller's ambient arbitrary-precision settings' includes the settings in force when the module
    happens to be imported. Contracts must be re-installed by the caller afterwards."""
    import importlib
    import mpmath
    from plotink import ebb_calc
    mpmath.mp.dps = 15
    if setting is not None:
        if setting[0] == "dps":
            mpmath.mp.dps = setting[1]
        else:
            mpmath.mp.prec = setting[1]
    importlib.reload(ebb_calc)
    mpmath.mp.dps = 15
    return ebb_calc


def by_keyword(fn, args):
    """Call fn with its positional arguments passed by keyword, using the parameter names the
    function under test currently has (read at run time: renaming a parameter is not a violation)."""
    import inspect
    orig = getattr(fn, "__verif_original__", fn)
    try:
        names = [p.name for p in inspect.signature(orig).parameters.values()
                 if p.kind in (p.POSITIONAL_OR_KEYWORD, p.KEYWORD_ONLY)]
    except (TypeError, ValueError):
        return fn(*args)
    if len(names) < len(args):
        return fn(*args)
    return fn(**dict(zip(names, args)))


class _Word(str):
    """A str subclass whose text rendering is not its value (like an Enum member's)."""

    def __str__(self):
        return "Word(%s)" % str.__str__(self)

    __repr__ = __str__


def _enum_clear():
    import enum

    class AccumMode(str, enum.Enum):
        CLEAR = "clear"
    return AccumMode.CLEAR


def fresh_clear(rng):
    """The word 'clear' as a string object created at run time (read from a file, a JSON field,
    .lower(), a str subclass, a (str, Enum) member ...): equal to the literal, but not the same
    interned object, and possibly with another str()/repr()."""
    c = rng.randrange(7)
    if c == 4:
        return _Word("clear")
    if c == 5:
        return _enum_clear()
    if c == 6:
        return type("Tag", (str,), {})("clear")
    if c == 0:
        return "".join(["cl", "ear"])
    if c == 1:
        return b"clear".decode("ascii")
    if c == 2:
        return "CLEAR".lower()
    return str("xclear"[1:])


def failed_call(rng, fn, n_args):
    """A call the caller gets wrong and survives (try/except): malformed arguments are outside every
    statement, but whatever such a call leaves behind must not change later, valid answers."""
    bad = [rng.choice((None, "bogus", "1e", [], object(), float("nan"), 2 ** 40)) if rng.random() < 0.6
           else rng.randint(-5, 5) for _ in range(n_args)]
    try:
        fn(*bad)
    except Exception:
        pass
    except BaseException:
        raise


def pick_ambient(rng):
    return Ambient(*rng.choice(AMBIENT))


def pick_time(rng):
    """(class label, T)"""
    c = rng.random()
    if c < 0.12:
        t = rng.choice((1, 2, 3))
        return "T=%d" % t, t
    if c < 0.40:
        return "T:4..1e3", rng.randint(4, 1000)
    if c < 0.75:
        return "T:1e3..1e6", int(10 ** rng.uniform(3, 6))
    if c < 0.88:
        return "T:1e6..2^24", rng.randint(10 ** 6, 2 ** 24)
    return "T:2^24..2^32", rng.randint(2 ** 24, 2 ** 32)


def pick_edge_rate(rng):
    c = rng.random()
    if c < 0.10:
        return rng.choice((RMAX, -RMAX, RMAX - 1, -RMAX + 1))
    if c < 0.18:
        return rng.choice((0, 1, -1, 2, -2))
    if c < 0.30:
        return rng.randint(-1000, 1000)
    return rng.randint(-RMAX, RMAX)


def pick_accum(rng):
    c = rng.random()
    if c < 0.35:
        return "clear"
    if c < 0.45:
        return 0
    if c < 0.55:
        return M - 1
    if c < 0.60:
        return rng.choice((1, M - 2, M // 2))
    return rng.randrange(0, M)


def lt_rate_from_r1(r1, accel):
    """The `rate` argument that makes the first accumulated rate equal r1."""
    return r1 - accel + S.trunc_div(accel, 2)


def gen_lt_case(rng):
    """One in-domain timed move: (classes, rate, accel, T, accum)."""
    classes = []
    tcls, time = pick_time(rng)
    classes.append(tcls)
    mode = rng.random()
    if time == 1 or mode < 0.35:
        # choose accel first (any magnitude that keeps the move in range)
        r1 = pick_edge_rate(rng)
        if time == 1:
            accel = rng.choice((0, 1, -1, rng.randint(-RMAX, RMAX), rng.randint(-99, 99)))
        else:
            lo = -((RMAX + r1) // (time - 1))
            hi = (RMAX - r1) // (time - 1)
            c = rng.random()
            if c < 0.2:
                accel = rng.choice((lo, hi))
            elif c < 0.35:
                accel = rng.choice((0, 1, -1, 2, -2, 3, -3))
                accel = max(lo, min(hi, accel))
            else:
                accel = rng.randint(lo, hi)
    else:
        # choose both end rates, derive accel (truncated so the end stays in range)
        r1 = pick_edge_rate(rng)
        r_t = pick_edge_rate(rng)
        accel = S.trunc_div(abs(r_t - r1), time - 1) * (1 if r_t >= r1 else -1)
    if rng.random() < 0.12:      # zero first-tick rate: second tick decides the clear value
        r1 = 0
        if time > 1:
            accel = max(-(RMAX // (time - 1)), min(RMAX // (time - 1), accel))
    rate = lt_rate_from_r1(r1, accel)
    accum = pick_accum(rng)
    if rng.random() < 0.10 and accum != "clear":
        # constructed: the total lands exactly on a step boundary k*M, or on k*M - 1
        base = S.lt_total(rate, accel, time, 0)
        target = rng.choice((0, M - 1, 1))
        accum = (target - base) % M
        classes.append("total==kM" if target == 0 else ("total==kM-1" if target == M - 1 else "total==kM+1"))
    # labels
    if accel == 0:
        classes.append("accel=0")
    elif abs(accel) == 1:
        classes.append("accel=+-1")
    elif accel % 2:
        classes.append("accel odd neg" if accel < 0 else "accel odd pos")
    else:
        classes.append("accel even")
    if r1 == 0:
        classes.append("r1=0,accel<0" if accel < 0 else ("r1=0,accel>0" if accel > 0 else "r1=0,accel=0"))
    r_t = S.lt_rate(rate, accel, time)
    if abs(r1) == RMAX or abs(r_t) == RMAX:
        classes.append("rate at +-(2^31-1)")
    if r1 * r_t < 0:
        classes.append("rate reverses inside move")
    classes.append("accum=clear" if accum == "clear" else
                   ("accum=0" if accum == 0 else ("accum=2^31-1" if accum == M - 1 else "accum=other")))
    return classes, rate, accel, time, accum


# ---------------------------------------------------------------- T3 moves
def _pick_t3_time(rng):
    c = rng.random()
    if c < 0.15:
        t = rng.choice((1, 2, 3))
        return "T=%d" % t, t
    if c < 0.30:
        return "T:4..20", rng.randint(4, 20)
    if c < 0.60:
        return "T:20..1e3", rng.randint(20, 1000)
    if c < 0.85:
        return "T:1e3..1e5", int(10 ** rng.uniform(3, 5))
    if c < 0.95:
        return "T:1e5..2^24", rng.randint(10 ** 5, 2 ** 24)
    return "T:2^24..2^28", rng.randint(2 ** 24, 2 ** 28)


def gen_t3_case(rng):
    """One in-domain T3 move, or None (rejected draw).
    Returns (classes, T, rate, accel, jerk, accum)."""
    classes = []
    tcls, time = _pick_t3_time(rng)
    classes.append(tcls)
    # jerk: bounded so that the rate parabola can fit in +-RMAX over T ticks
    jmax = min(RMAX, (16 * RMAX) // (time * time) + 1)
    c = rng.random()
    if c < 0.12:
        jerk = 0
    elif c < 0.35:
        jerk = rng.choice((1, -1, 2, -2, 3, -3, 5, -5, 6, -6, 7, -7, 11, -11, 12, -13))
        jerk = max(-jmax, min(jmax, jerk))
    elif c < 0.5:
        jerk = rng.choice((jmax, -jmax, jmax - 1, -jmax + 1))
    else:
        jerk = rng.randint(-jmax, jmax)
    # vertex placement decides accel (k* = 1/2 - a/j  =>  a = j/2 - j*k*)
    vcls = None
    if jerk != 0:
        c = rng.random()
        if c < 0.15:
            kstar = rng.uniform(-2 * time - 5, 1.0)
            vcls = "vertex before tick 1"
        elif c < 0.27:
            kstar = rng.uniform(1.0, 1.5)
            vcls = "vertex in [1,1.5]"
        elif c < 0.55:
            kstar = rng.uniform(1.5, max(1.5, time - 1.5))
            vcls = "vertex inside"
        elif c < 0.68:
            kstar = rng.uniform(max(1.0, time - 1.5), time)
            vcls = "vertex in [T-1.5,T]"
        elif c < 0.80:
            kstar = rng.uniform(time, 3 * time + 5)
            vcls = "vertex beyond T"
        elif c < 0.90:
            kstar = rng.randint(-3, time + 3)
            vcls = "vertex on an integer"
        else:
            kstar = rng.randint(-3, time + 3) + 0.5
            vcls = "vertex on a half-integer"
        from fractions import Fraction
        a_exact = Fraction(jerk, 2) - jerk * Fraction(kstar)
        accel = int(round(a_exact))
        if vcls in ("vertex on an integer", "vertex on a half-integer") and a_exact.denominator != 1:
            # make the vertex exact: need j/2 - j*k* integral; retry with even jerk
            jerk = jerk * 2 if abs(jerk * 2) <= jmax else jerk
            a_exact = Fraction(jerk, 2) - jerk * Fraction(kstar)
            accel = int(round(a_exact))
    else:
        amax = RMAX if time == 1 else (2 * RMAX) // (time - 1)
        accel = rng.choice((0, 1, -1, rng.randint(-amax, amax), rng.randint(-amax, amax)))
    if not -S.I32 <= accel < S.I32:
        return None
    # place the parabola vertically: compute its range relative to r0 over ticks 1..T
    rel = [S.t3_rate(0, 0, 0, 1)]  # placeholder, replaced below
    ticks = S.t3_candidate_ticks(accel, jerk, time)
    rel = [k * accel + jerk * k * (k - 1) // 2 for k in ticks]
    lo, hi = -RMAX - min(rel), RMAX - max(rel)
    if lo > hi:
        return None
    c = rng.random()
    if c < 0.15:
        r0 = rng.choice((lo, hi))
        classes.append("peak rate at +-(2^31-1)")
    elif c < 0.30:
        # first tick rate zero (clear rule levels 2 and 3)
        r0 = -accel
        if not lo <= r0 <= hi:
            return None
    elif c < 0.40:
        # sign change inside the move: put zero rate at a random interior tick
        k = rng.randint(1, time)
        r0 = -(k * accel + jerk * k * (k - 1) // 2) + rng.choice((0, 1, -1))
        if not lo <= r0 <= hi:
            return None
    else:
        r0 = rng.randint(lo, hi)
    rate = r0 + S.trunc_div(accel, 2) - S.trunc_div(jerk, 6)
    if abs(rate) > RMAX:
        return None
    if rng.random() < 0.04:
        # the three-level clear rule: r1 = r2 = 0 needs accel = -jerk
        accel = -jerk
        r0 = -accel
        rate = r0 + S.trunc_div(accel, 2) - S.trunc_div(jerk, 6)
        if rng.random() < 0.15:
            jerk, accel, rate = 0, 0, 0
    if not S.t3_in_domain(rate, accel, jerk, time):
        return None
    accum = pick_accum(rng)
    if rng.random() < 0.10 and accum != "clear":
        base = S.t3_total(rate, accel, jerk, time, 0)
        target = rng.choice((0, M - 1))
        accum = (target - base) % M
        classes.append("total==kM" if target == 0 else "total==kM-1")
    # labels
    if vcls:
        classes.append(vcls)
    if jerk == 0:
        classes.append("jerk=0")
    else:
        classes.append("jerk%%6=%d,%s" % (abs(jerk) % 6, "neg" if jerk < 0 else "pos"))
    if accel == 0:
        classes.append("accel=0")
    else:
        classes.append("accel %s %s" % ("odd" if accel % 2 else "even", "neg" if accel < 0 else "pos"))
    r1 = S.t3_rate(rate, accel, jerk, 1)
    r2 = S.t3_rate(rate, accel, jerk, 2)
    r3 = S.t3_rate(rate, accel, jerk, 3)
    if r1 == 0:
        if r2 == 0:
            classes.append("r1=r2=r3=0" if r3 == 0 else ("r1=r2=0,r3<0" if r3 < 0 else "r1=r2=0,r3>0"))
        else:
            classes.append("r1=0,r2<0" if r2 < 0 else "r1=0,r2>0")
    r_t = S.t3_rate(rate, accel, jerk, time)
    if r1 * r_t < 0:
        classes.append("rate sign differs at the ends")
    if jerk != 0:
        v = S.t3_vertex(accel, jerk)
        if 1 < v < time:
            kv = [k for k in S.t3_candidate_ticks(accel, jerk, time) if k not in (1, time)]
            if kv and max(abs(S.t3_rate(rate, accel, jerk, k)) for k in kv) > max(abs(r1), abs(r_t)):
                classes.append("peak strictly inside the move")
    classes.append("accum=clear" if accum == "clear" else "accum=given")
    return classes, time, rate, accel, jerk, accum


# ---------------------------------------------------------------- LM (step-limited) moves
def gen_lm_case(rng):
    """One step-limited request: (classes, steps, rate, accel, accum).  May be outside the
    property's domain (the monitor filters with the exact oracle and counts the skips)."""
    classes = []
    c = rng.random()
    if c < 0.03:
        # the three (0,0,0) rules
        kind = rng.choice(("steps=0", "rate=accel=0", "neg steps & neg rate"))
        classes.append("cannot move: " + kind)
        if kind == "steps=0":
            return classes, 0, pick_edge_rate(rng), rng.randint(-10 ** 6, 10 ** 6), pick_accum(rng)
        if kind == "rate=accel=0":
            return classes, rng.choice((1, -1, rng.randint(-10 ** 6, 10 ** 6) or 1)), 0, 0, pick_accum(rng)
        return classes, -rng.randint(1, 10 ** 6), -rng.randint(1, RMAX), rng.randint(-10 ** 5, 10 ** 5), pick_accum(rng)
    lt_classes, rate, accel, time, accum = gen_lt_case(rng)
    if rng.random() < 0.25 and time > 1:
        # small |accel| makes exact boundary hits and long phases frequent
        accel = rng.choice((1, -1, 2, -2, 3, -3, 0))
        r1 = pick_edge_rate(rng)
        r_end = r1 + (time - 1) * accel
        if abs(r_end) > RMAX:
            time = max(2, (RMAX - abs(r1)) // max(1, abs(accel)))
        rate = lt_rate_from_r1(r1, accel)
    if rng.random() < 0.08 and time >= 2:
        # reversal between tick 1 and tick 2: r1 > 0 > r2 (or mirrored)
        sign = rng.choice((1, -1))
        a_mag = rng.randint(2, RMAX)
        r1 = sign * rng.randint(1, a_mag - 1)
        accel = -sign * a_mag
        if abs(r1 + (time - 1) * accel) > RMAX:
            time = max(2, 1 + (RMAX - abs(r1)) // a_mag)
        rate = lt_rate_from_r1(r1, accel)
    acc0 = S.lt_clear_value(rate, accel) if accum == "clear" else accum
    k_rev = S.lm_reversal_tick(rate, accel)
    target = None
    if rng.random() < 0.22 and accum != "clear":
        # constructed: the accumulator total at tick T is exactly on / next to a step boundary
        base = S.lt_total(rate, accel, time, 0)
        target = rng.choice((0, M - 1, 1, M - 2))
        accum = (target - base) % M
        acc0 = accum
    taken = S._steps_taken(rate, accel, acc0, time, k_rev)
    c = rng.random()
    if c < 0.55:
        steps = taken
    elif c < 0.70:
        steps = taken + 1
    elif c < 0.80:
        steps = max(1, taken - 1)
    elif c < 0.90:
        steps = rng.randint(1, max(1, taken))
    else:
        steps = rng.choice((1, 2, rng.randint(1, 2 ** 31 - 1)))
    if steps <= 0:
        steps = 1
    if target is not None:
        moving_fwd = S.lt_rate(rate, accel, time) >= 0
        classes.append("total at T %s, moving %s" % (
            {0: "== kM", M - 1: "== kM-1", 1: "== kM+1", M - 2: "== kM-2"}[target],
            "forward" if moving_fwd else "backward"))
    if rng.random() < 0.15 and rate <= 0:
        classes.append("legacy negative steps")
        return classes, -steps, -rate, -accel, accum
    return classes, steps, rate, accel, accum


def lm_classes(res, accum):
    """Input-class labels derived from the oracle's analysis of an in-domain request."""
    out = []
    rate, accel, acc0, k_rev, d = res.rate, res.accel, res.acc0, res.k_rev, res.duration
    r1 = S.lt_rate(rate, accel, 1)
    if accel == 0:
        out.append("accel=0")
    elif abs(accel) <= 3:
        out.append("|accel|<=3")
    if r1 == 0:
        out.append("r1=0")
    if k_rev is None:
        out.append("no reversal, %s" % ("forward" if (r1 > 0 or (r1 == 0 and accel > 0)) else "backward"))
    else:
        if k_rev == 1:
            out.append("reversal between tick 1 and 2")
        if d <= k_rev:
            out.append("budget met before the reversal")
        else:
            s_rev = abs(S.lt_total(rate, accel, k_rev, acc0) // M - acc0 // M)
            if s_rev == 0:
                out.append("reversal before the first step")
            else:
                out.append("steps in both directions")
    if k_rev is None and rate != 0 and accel != 0 and (rate > 0) != (accel > 0):
        out.append("rate argument and accel of opposite sign but no reversal after tick 1")
    total = S.lt_total(rate, accel, d, acc0)
    moving_fwd = S.lt_rate(rate, accel, d) >= 0
    if (total % M == 0 and moving_fwd) or (total % M == M - 1 and not moving_fwd):
        out.append("exact boundary hit at the duration tick" + (" after a reversal" if (k_rev is not None and d > k_rev) else ""))
    if d >= 2:
        prev = S.lt_total(rate, accel, d - 1, acc0)
        prev_fwd = S.lt_rate(rate, accel, d) >= 0
        if (prev % M == M - 1 and prev_fwd) or (prev % M == 0 and not prev_fwd):
            out.append("one unit short of the boundary at the tick before the duration"
                       + (" after a reversal" if (k_rev is not None and d > k_rev) else ""))
    if d == 1:
        out.append("duration=1")
    elif d >= 2 ** 24:
        out.append("duration>=2^24")
    if res.steps >= 2 ** 24:
        out.append("steps>=2^24")
    out.append("accum=clear" if accum == "clear" else "accum=given")
    return out
