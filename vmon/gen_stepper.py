"""Seeded, class-stratified generators for the stepper-motion properties (C01-C03, C17)."""
from .oracles import stepper as S

M, RMAX = S.M, S.RMAX

AMBIENT = [("dps", 3), ("dps", 15), ("dps", 30), ("dps", 50), ("dps", 200),
           ("prec", 24), ("prec", 53), ("prec", 64), ("workdps", 5), ("workdps", 100),
           ("workprec", 20)]


class Ambient:
    """Leaves a caller-side mpmath precision behind before the monitored call."""

    def __init__(self, kind, value):
        self.kind, self.value = kind, value
        self._cm = None

    def __enter__(self):
        import mpmath
        if self.kind == "dps":
            mpmath.mp.dps = self.value
        elif self.kind == "prec":
            mpmath.mp.prec = self.value
        elif self.kind == "workdps":
            self._cm = mpmath.workdps(self.value)
            self._cm.__enter__()
        elif self.kind == "workprec":
            self._cm = mpmath.workprec(self.value)
            self._cm.__enter__()
        return self

    def __exit__(self, *exc):
        if self._cm is not None:
            self._cm.__exit__(*exc)
        return False

    def describe(self):
        return [self.kind, self.value]


def pick_ambient(rng):
    return Ambient(*rng.choice(AMBIENT))


def pick_time(rng):
    """(class label, T)"""
    c = rng.random()
    if c < 0.12:
        t = rng.choice((1, 2, 3))
        return "T=%d" % t, t
    if c < 0.40:
        return "T:4..1e3", rng.randint(4, 1000)
    if c < 0.75:
        return "T:1e3..1e6", int(10 ** rng.uniform(3, 6))
    if c < 0.88:
        return "T:1e6..2^24", rng.randint(10 ** 6, 2 ** 24)
    return "T:2^24..2^32", rng.randint(2 ** 24, 2 ** 32)


def pick_edge_rate(rng):
    c = rng.random()
    if c < 0.10:
        return rng.choice((RMAX, -RMAX, RMAX - 1, -RMAX + 1))
    if c < 0.18:
        return rng.choice((0, 1, -1, 2, -2))
    if c < 0.30:
        return rng.randint(-1000, 1000)
    return rng.randint(-RMAX, RMAX)


def pick_accum(rng):
    c = rng.random()
    if c < 0.35:
        return "clear"
    if c < 0.45:
        return 0
    if c < 0.55:
        return M - 1
    if c < 0.60:
        return rng.choice((1, M - 2, M // 2))
    return rng.randrange(0, M)


def lt_rate_from_r1(r1, accel):
    """The `rate` argument that makes the first accumulated rate equal r1."""
    return r1 - accel + S.trunc_div(accel, 2)


def gen_lt_case(rng):
    """One in-domain timed move: (classes, rate, accel, T, accum)."""
    classes = []
    tcls, time = pick_time(rng)
    classes.append(tcls)
    mode = rng.random()
    if time == 1 or mode < 0.35:
        # choose accel first (any magnitude that keeps the move in range)
        r1 = pick_edge_rate(rng)
        if time == 1:
            accel = rng.choice((0, 1, -1, rng.randint(-RMAX, RMAX), rng.randint(-99, 99)))
        else:
            lo = -((RMAX + r1) // (time - 1))
            hi = (RMAX - r1) // (time - 1)
            c = rng.random()
            if c < 0.2:
                accel = rng.choice((lo, hi))
            elif c < 0.35:
                accel = rng.choice((0, 1, -1, 2, -2, 3, -3))
                accel = max(lo, min(hi, accel))
            else:
                accel = rng.randint(lo, hi)
    else:
        # choose both end rates, derive accel (truncated so the end stays in range)
        r1 = pick_edge_rate(rng)
        r_t = pick_edge_rate(rng)
        accel = S.trunc_div(abs(r_t - r1), time - 1) * (1 if r_t >= r1 else -1)
    if rng.random() < 0.12:      # zero first-tick rate: second tick decides the clear value
        r1 = 0
        if time > 1:
            accel = max(-(RMAX // (time - 1)), min(RMAX // (time - 1), accel))
    rate = lt_rate_from_r1(r1, accel)
    accum = pick_accum(rng)
    if rng.random() < 0.10 and accum != "clear":
        # constructed: the total lands exactly on a step boundary k*M, or on k*M - 1
        base = S.lt_total(rate, accel, time, 0)
        target = rng.choice((0, M - 1, 1))
        accum = (target - base) % M
        classes.append("total==kM" if target == 0 else ("total==kM-1" if target == M - 1 else "total==kM+1"))
    # labels
    if accel == 0:
        classes.append("accel=0")
    elif abs(accel) == 1:
        classes.append("accel=+-1")
    elif accel % 2:
        classes.append("accel odd neg" if accel < 0 else "accel odd pos")
    else:
        classes.append("accel even")
    if r1 == 0:
        classes.append("r1=0,accel<0" if accel < 0 else ("r1=0,accel>0" if accel > 0 else "r1=0,accel=0"))
    r_t = S.lt_rate(rate, accel, time)
    if abs(r1) == RMAX or abs(r_t) == RMAX:
        classes.append("rate at +-(2^31-1)")
    if r1 * r_t < 0:
        classes.append("rate reverses inside move")
    classes.append("accum=clear" if accum == "clear" else
                   ("accum=0" if accum == 0 else ("accum=2^31-1" if accum == M - 1 else "accum=other")))
    return classes, rate, accel, time, accum
