"""C13 - grid index: nearest() returns a live path end that no neighbouring end beats.

Monitors: hooks on the real spatial_grid.Index.__init__ / remove_path keep a shadow set of
live paths per index object (history + model); an icontract post-condition on the real
Index.nearest checks every answer against that shadow model and the grid geometry the
object itself publishes."""
import functools
import math
from fractions import Fraction

from .. import contracts

LEVEL = "exploration"
THOROUGH_SHARDS = 16
RULE = ("seeded histories: build an index (1..300 paths; lattice / continuous / collinear / clustered "
        "coordinates; bins per side in {1,2,3,4,5,7,16}; reverse on/off) then interleave nearest() "
        "queries (inside the grid, on its border, far outside, exactly at existing ends, at cell "
        "borders) with removals (greedy tour, random order, cell-emptying); one evaluation = one "
        "nearest() answer checked against the shadow model; distinct by (index contents, removed set, "
        "query); non-trivial when >= 2 paths are live")
ASSUMPTIONS = ["paths have non-zero overall extent (the statement's domain); coordinates finite",
               "grid geometry (xmin, ymin, bin sizes, bins per side) is read from the object at run "
               "time; ends within 1e-9 of a cell border are not used by the neighbourhood clause; ends EXACTLY on "
               "an interior border must be treated by one consistent convention (border k belongs to cell k, or "
               "to cell k-1): a violation is reported only when both conventions are refuted by real answers",
               "distance comparisons allow a relative slack of 1e-12 (float squared distances)"]
REL = 1e-12


def classify(rec):
    return None


def sqd(a, b):
    return (a[0] - b[0]) ** 2 + (a[1] - b[1]) ** 2


class Shadow:
    __slots__ = ("vertices", "reverse", "n", "live", "bins", "note")

    def __init__(self, vertices, reverse, bins=None):
        self.bins = bins if isinstance(bins, int) else None
        self.vertices = [((a[0], a[1]), (b[0], b[1])) for a, b in vertices]
        self.reverse = bool(reverse)
        self.n = len(self.vertices)
        self.live = set(range(self.n))
        self.note = None

    def ends(self):
        """(end id, point) for every live end."""
        for i in self.live:
            yield i, self.vertices[i][0]
            if self.reverse:
                yield i + self.n, self.vertices[i][1]


class Monitor:
    def __init__(self, ctx):
        self.ctx = ctx
        self.shadows = {}
        # ends lying EXACTLY on an interior cell border belong to one of the two cells; which one
        # is the implementation's choice, but it has to be one consistent convention:
        # "L" border k belongs to cell k (floor), "U" to cell k-1.  Each list collects the
        # witnesses that refute that convention; a violation needs both refuted.
        self.refuted = {"L": [], "U": []}

    @staticmethod
    def exact_border(coord, origin, size, bins):
        """k if coord lies exactly (also in float arithmetic) on interior border k, else None."""
        if not (math.isfinite(coord) and size > 0):
            return None
        diff = coord - origin
        t_float = diff / size
        if t_float != math.floor(t_float) or not 1 <= t_float <= bins - 1:
            return None                 # cheap float pre-check; exactness is confirmed below
        if Fraction(diff) != Fraction(coord) - Fraction(origin):
            return None
        t = Fraction(diff) / Fraction(size)
        if t.denominator != 1 or not 1 <= t <= bins - 1:
            return None
        return int(t) if diff / size == int(t) else None

    def border_ends(self, witness, q, qx, qy, ends, geo, d_got, slack):
        """Evaluate both border conventions for ends lying exactly on a border."""
        xmin, ymin, bx, by, bins = geo
        ctx = self.ctx
        for ident, p in ends:
            kx = self.exact_border(p[0], xmin, bx, bins)
            ky = self.exact_border(p[1], ymin, by, bins)
            if kx is None and ky is None:
                continue
            cx, cx_ok = self.cell(p[0], xmin, bx, bins, True)
            cy, cy_ok = self.cell(p[1], ymin, by, bins, True)
            if (kx is None and not cx_ok) or (ky is None and not cy_ok):
                continue
            d_end = sqd(q, p)
            for hyp in ("L", "U"):
                ex = cx if kx is None else (kx if hyp == "L" else kx - 1)
                ey = cy if ky is None else (ky if hyp == "L" else ky - 1)
                if abs(ex - qx) <= 1 and abs(ey - qy) <= 1:
                    ctx.count("monitor:border end in the neighbourhood under convention " + hyp)
                    if d_got > d_end + slack and len(self.refuted[hyp]) < 6:
                        self.refuted[hyp].append(dict(witness, border_end=ident, border=[kx, ky],
                                                      d2_got=d_got, d2_border_end=d_end))

    def border_verdict(self):
        ctx = self.ctx
        n_l, n_u = len(self.refuted["L"]), len(self.refuted["U"])
        ctx.extra["border_convention_refutations"] = [{"lower-inclusive (floor)": n_l, "upper-inclusive": n_u}]
        if n_l >= 2 and n_u >= 2:
            ctx.violation("ends exactly on a cell border are ignored under either border convention "
                          "(cells are not assigned consistently)",
                          {"fn": "border", "cases": [self.refuted["L"][0], self.refuted["U"][0]],
                           "refutations": {"L": n_l, "U": n_u}})

    def geometry(self, index):
        """Grid geometry as published by THIS object (instance attributes only - the class carries
        defaults of the same names), accepted only if it is consistent with what the object was
        built from: the bins-per-side argument and an extent that covers every path end."""
        own = getattr(index, "__dict__", {})
        try:
            g = (float(own["xmin"]), float(own["ymin"]), float(own["bin_size_x"]),
                 float(own["bin_size_y"]), int(own["bins_per_side"]))
        except (KeyError, TypeError, ValueError):
            return None
        if not all(math.isfinite(v) for v in g[:4]) or g[2] <= 0 or g[3] <= 0 or g[4] < 1:
            return None
        sh = self.shadows.get(id(index))
        if sh is not None:
            if sh.bins is not None and sh.bins != g[4]:
                return None
            pts = [p for v in sh.vertices for p in (v if sh.reverse else v[:1])]
            if pts:
                if g[0] > min(p[0] for p in pts) or g[1] > min(p[1] for p in pts) or \
                        g[0] + g[2] * g[4] < max(p[0] for p in pts) or g[1] + g[3] * g[4] < max(p[1] for p in pts):
                    return None
        return g

    @staticmethod
    def cell(coord, origin, size, bins, clamp_low):
        """(cell number, certain?) - uncertain within 1e-9 cell of an interior border."""
        t = (coord - origin) / size
        c = math.floor(t)
        frac = t - c
        certain = 1e-9 < frac < 1 - 1e-9
        if c >= bins - 1 and t > bins - 1 + 1e-9:
            c, certain = bins - 1, True
        if c < 0:
            if clamp_low and t < -1e-9:
                c, certain = 0, True
            elif clamp_low:
                c = 0
        return min(c, bins - 1), certain

    def post_nearest(self, self_, vertex_in, result):
        ctx = self.ctx
        sh = self.shadows.get(id(self_))
        if sh is None:
            ctx.count("skipped:index not built under the monitor")
            return True
        ctx.count("monitor:nearest evaluated")
        q = (vertex_in[0], vertex_in[1])
        ends = list(sh.ends())
        witness = {"fn": "nearest", "vertices": sh.vertices if sh.n <= 2000 else
                   {"count": sh.n, "first": sh.vertices[:5], "last": sh.vertices[-30:], "note": sh.note},
                   "reverse": sh.reverse,
                   "bins": getattr(self_, "bins_per_side", None),
                   "removed": sorted(set(range(sh.n)) - sh.live), "query": list(q), "got": result}
        if not ends:
            ctx.tag("answer:None (no path left)")
            if result is not None:
                ctx.violation("returned an end although no path remains", witness)
            return True
        if result is None:
            ctx.violation("returned None although paths remain", witness)
            return True
        if isinstance(result, bool) or not isinstance(result, int) or result < 0 or \
                result >= (2 * sh.n if sh.reverse else sh.n):
            ctx.violation("identifier out of range", witness)
            return True
        path = result - sh.n if result >= sh.n else result
        if path not in sh.live:
            ctx.violation("returned an end of a removed path", witness)
            return True
        point = sh.vertices[path][1] if result >= sh.n else sh.vertices[path][0]
        d_got = sqd(q, point)
        d_min = min(sqd(q, p) for _, p in ends)
        slack = REL * max(d_min, d_got) + 1e-300
        geo = self.geometry(self_)
        if geo is None:
            ctx.count("skipped:grid geometry not published (neighbourhood clauses)")
            return True
        xmin, ymin, bx, by, bins = geo
        in_grid = xmin <= q[0] <= xmin + bx * bins and ymin <= q[1] <= ymin + by * bins
        best = min(ends, key=lambda e: sqd(q, e[1]))
        # strong clause: true nearest within one cell width of an in-grid query
        if in_grid and abs(best[1][0] - q[0]) < bx * (1 - 1e-9) and abs(best[1][1] - q[1]) < by * (1 - 1e-9):
            ctx.count("monitor:strong clause applicable")
            if d_got > d_min + slack:
                witness.update(true_nearest=best[0], d2_got=d_got, d2_min=d_min)
                ctx.violation("not the true nearest although one lies within one cell width", witness)
                return True
        # neighbourhood clause
        qx, cx_ok = self.cell(q[0], xmin, bx, bins, True)
        qy, cy_ok = self.cell(q[1], ymin, by, bins, True)
        if not (cx_ok and cy_ok):
            ctx.count("skipped:query within 1e-9 of a cell border (neighbourhood clause)")
            return True
        certainly_in, maybe_in = [], 0
        for ident, p in ends:
            ex, ex_ok = self.cell(p[0], xmin, bx, bins, True)
            ey, ey_ok = self.cell(p[1], ymin, by, bins, True)
            inside = abs(ex - qx) <= 1 and abs(ey - qy) <= 1
            if ex_ok and ey_ok:
                if inside:
                    certainly_in.append((ident, p))
            else:
                # near a border: could be in the block under either reading
                near = abs(ex - qx) <= 2 and abs(ey - qy) <= 2
                if near:
                    maybe_in += 1
        ctx.count("monitor:neighbourhood clause applicable")
        self.border_ends(witness, q, qx, qy, ends, geo, d_got, slack)
        if certainly_in:
            d_block = min(sqd(q, p) for _, p in certainly_in)
            if d_got > d_block + slack:
                witness.update(closer_neighbour=min(certainly_in, key=lambda e: sqd(q, e[1]))[0],
                               d2_got=d_got, d2_neighbour=d_block)
                ctx.violation("a remaining end in the 3x3 neighbourhood is closer", witness)
        elif maybe_in == 0:
            ctx.count("monitor:empty-neighbourhood fallback checked")
            if d_got > d_min + slack:
                witness.update(true_nearest=best[0], d2_got=d_got, d2_min=d_min)
                ctx.violation("neighbourhood empty but result is not the global nearest", witness)
        return True


def install(ctx):
    from plotink import spatial_grid
    import icontract
    mon = Monitor(ctx)
    cls = spatial_grid.Index
    orig_init, orig_nearest, orig_remove = cls.__init__, cls.nearest, cls.remove_path

    @functools.wraps(orig_init)
    def init(self, vertices, bins_per_side, reverse, *args, **kwargs):
        mon.shadows[id(self)] = Shadow(vertices, reverse, bins_per_side)
        return orig_init(self, vertices, bins_per_side, reverse, *args, **kwargs)

    @functools.wraps(orig_remove)
    def remove_path(self, path_index, *args, **kwargs):
        out = orig_remove(self, path_index, *args, **kwargs)
        sh = mon.shadows.get(id(self))
        if sh is not None:
            sh.live.discard(path_index)
            ctx.count("hook:remove_path observed")
        return out

    def post(_ARGS, _KWARGS, result):        # name-independent: (self, query point)
        vals = list(_ARGS) + list(_KWARGS.values())
        return mon.post_nearest(vals[0], vals[1], result)

    nearest = icontract.ensure(post, error=contracts.ContractError, enabled=True)(orig_nearest)
    cls.__init__, cls.nearest, cls.remove_path = init, nearest, remove_path
    for name, orig in (("__init__", orig_init), ("nearest", orig_nearest), ("remove_path", orig_remove)):
        contracts._installed.append((cls, name, orig))
    return mon


# ---------------------------------------------------------------- workload
def gen_vertices(rng):
    n = rng.choice((1, 2, 3, 5, 8, rng.randint(2, 40), rng.randint(10, 300)))
    c = rng.random()
    if c < 0.3:
        cls = "lattice coordinates"
        span = rng.choice((2, 4, 10, 50))
        pt = lambda: (rng.randint(0, span), rng.randint(0, span))
    elif c < 0.55:
        cls = "continuous coordinates"
        pt = lambda: (rng.uniform(-100, 100), rng.uniform(-100, 100))
    elif c < 0.7:
        cls = "all starts on one line (zero extent on one axis)"
        y0 = rng.choice((0, 3.5, -7))
        if rng.random() < 0.5:
            pt = lambda: (rng.uniform(0, 50), y0)
        else:
            pt = lambda: (y0, rng.randint(0, 20))
    elif c < 0.85:
        cls = "clustered"
        centres = [(rng.uniform(0, 100), rng.uniform(0, 100)) for _ in range(rng.randint(1, 4))]

        def pt():
            cx, cy = rng.choice(centres)
            return (cx + rng.gauss(0, 1.5), cy + rng.gauss(0, 1.5))
    else:
        cls = "closed paths (start == end)"
        pt = lambda: (rng.uniform(0, 30), rng.uniform(0, 30))
    verts = []
    for _ in range(n):
        a = pt()
        b = a if cls.startswith("closed") else pt()
        verts.append([list(a), list(b)])
    return cls, verts


def gen_query(rng, verts, index):
    c = rng.random()
    xs = [v[0][0] for v in verts] + [v[1][0] for v in verts]
    ys = [v[0][1] for v in verts] + [v[1][1] for v in verts]
    x0, x1, y0, y1 = min(xs), max(xs), min(ys), max(ys)
    w, h = max(x1 - x0, 1e-6), max(y1 - y0, 1e-6)
    if c < 0.35:
        return "query inside the grid", [rng.uniform(x0, x1), rng.uniform(y0, y1)]
    if c < 0.50:
        a, b = rng.choice(verts)
        return "query at an existing end", list(rng.choice((a, b)))
    if c < 0.62:
        return "query far outside", [rng.choice((x0 - 10 * w, x1 + 10 * w, rng.uniform(x0, x1))),
                                     rng.choice((y0 - 10 * h, y1 + 10 * h))]
    if c < 0.72:
        return "query on the grid border", [rng.choice((index.xmin, index.xmin + index.bin_size_x * index.bins_per_side)),
                                            rng.uniform(y0, y1)]
    if c < 0.84:
        k = rng.randint(0, index.bins_per_side)
        return "query on a cell border", [index.xmin + k * index.bin_size_x, rng.uniform(y0, y1)]
    if c < 0.92:
        return "query at the origin", [0, 0]
    return "query just outside", [x0 - 0.01 * w, rng.uniform(y0, y1)]


def one_history(ctx, cls, verts, bins, reverse, mode):
    from plotink import spatial_grid
    rng = ctx.rng
    if rng.random() < 0.25:
        # container shapes: tuples, and lists and tuples mixed inside one path (also for closed paths)
        style = rng.randrange(3)
        verts = [[tuple(v[0]) if (style == 0 or (style == 1 and rng.random() < 0.5)) else list(v[0]),
                  tuple(v[1]) if (style == 0 or (style == 2) or rng.random() < 0.5) else list(v[1])] for v in verts]
        ctx.tag("shape: vertices given as tuples / lists and tuples mixed")
    base = [cls, "bins=%d" % bins, "reverse=%s" % reverse, "removals:" + mode]
    xs = [p[0] for v in verts for p in (v if reverse else v[:1])]
    ys = [p[1] for v in verts for p in (v if reverse else v[:1])]
    if max(xs) - min(xs) + max(ys) - min(ys) == 0:
        ctx.count("skipped:zero extent (outside the statement's domain)")
        return
    try:
        index = spatial_grid.Index(verts, bins, reverse)
    except Exception as exc:
        ctx.violation("exception in construction", {"fn": "Index", "vertices": verts, "bins": bins,
                                                    "reverse": reverse, "exception": repr(exc)})
        return
    n = len(verts)
    live = set(range(n))
    removed = []
    steps = 0

    def ask(label, q):
        classes = base + [label, "live=%s" % ("0" if not live else "1" if len(live) == 1 else ">=2")]
        ctx.case(classes, (tuple(map(tuple, (tuple(map(tuple, v)) for v in verts))), bins, reverse,
                           tuple(removed), tuple(q)), nontrivial=len(live) >= 2)
        try:
            return index.nearest(q)
        except Exception as exc:
            ctx.violation("exception in nearest", {"fn": "nearest", "vertices": verts, "bins": bins,
                                                   "reverse": reverse, "removed": list(removed),
                                                   "query": list(q), "exception": repr(exc)})
            return "error"

    def remove(path):
        try:
            index.remove_path(path)
        except Exception as exc:
            ctx.violation("exception in remove_path", {"fn": "remove_path", "vertices": verts, "bins": bins,
                                                       "reverse": reverse, "removed": list(removed),
                                                       "path": path, "exception": repr(exc)})
        live.discard(path)
        removed.append(path)

    if mode == "tour":
        # the plot-ordering loop: start somewhere, repeatedly go to the nearest end and remove it
        pos = rng.choice(([0, 0], gen_query(rng, verts, index)[1]))
        visited = []
        for _ in range(n + 1):
            got = ask("tour step", pos)
            if got == "error":
                return
            if got is None:
                break
            if isinstance(got, bool) or not isinstance(got, int) or not 0 <= got < 2 * n:
                return      # already reported by the monitor
            path = got - n if got >= n else got
            if path not in live:
                return      # already reported by the monitor
            visited.append(path)
            # continue from the far end of that path
            pos = verts[path][0] if got >= n else verts[path][1]
            remove(path)
            if rng.random() < 0.15:
                ask(*gen_query(rng, verts, index))
        ctx.count("monitor:tour completed (exactly-once)")
        if sorted(visited) != list(range(n)) or live:
            ctx.violation("tour does not visit every path exactly once", {
                "fn": "tour", "vertices": verts, "bins": bins, "reverse": reverse, "visited": visited})
        if ask("after the last removal", pos) not in (None, "error"):
            pass            # reported by the monitor
        return
    order = list(range(n))
    rng.shuffle(order)
    if mode == "cell-emptying":
        # remove everything that shares the grid cell of a chosen end, then query there
        lookup = getattr(index, "lookup", None)
        if lookup:
            target = rng.randrange(n)
            same = [i for i in range(n) if lookup[i] == lookup[target]]
            order = same + [i for i in order if i not in same]
    budget = min(n, rng.choice((n, n, max(1, n // 2), 3)))
    for path in order[:budget]:
        for _ in range(rng.choice((0, 1, 1, 2))):
            label, q = gen_query(rng, verts, index)
            if ask(label, q) == "error":
                return
        remove(path)
        if mode == "cell-emptying":
            ask("query at a removed end", verts[path][0])
    for _ in range(2):
        label, q = gen_query(rng, verts, index)
        ask(label, q)


def border_history(ctx, mon, rng):
    """Ends placed exactly on interior cell borders (the geometry is read from a first index built
    from the same extent), a decoy end farther away, and queries 1.5 cells on either side."""
    from plotink import spatial_grid
    bins = rng.choice((4, 5, 6, 7, 8))
    size = rng.choice((100.0, 64.0, 10.0, 300.0, float(rng.randint(20, 500))))
    reverse = rng.random() < 0.5
    corners = [[[0.0, 0.0], [size, size]], [[size, size], [0.0, 0.0]]]
    try:
        probe = spatial_grid.Index(corners, bins, reverse)
    except Exception:
        return
    geo = mon.geometry(probe)
    mon.shadows.clear()
    if geo is None:
        ctx.count("skipped:grid geometry not published (border workload)")
        return
    xmin, ymin, bx, by, _ = geo
    axis = rng.randrange(2)
    k = rng.randrange(1, bins)
    side = rng.choice(("query above the border", "query below the border"))
    qcell = k + 1 if side == "query above the border" else k - 2
    row = rng.randrange(0, bins - 1)
    if not 0 <= qcell <= bins - 1:
        return
    o_a, s_a = (xmin, bx) if axis == 0 else (ymin, by)
    o_b, s_b = (ymin, by) if axis == 0 else (xmin, bx)
    border = o_a + k * s_a
    qa, qb = o_a + (qcell + 0.5) * s_a, o_b + (row + 0.5) * s_b
    decoy_a, decoy_b = qa + 0.45 * s_a * (1 if side == "query above the border" else -1), qb + 1.45 * s_b

    def pt(a, b):
        return [a, b] if axis == 0 else [b, a]
    inside = lambda v: 0.0 <= v <= size     # noqa: E731
    if not all(inside(v) for v in (border, qa, qb, decoy_a, decoy_b)):
        return
    far = pt(0.0, size)                         # where the other end of each extra path lives
    verts = corners + [[pt(border, qb), far], [pt(decoy_a, decoy_b), far]]
    # a few more exact-border ends elsewhere, and ordinary ends
    for _ in range(rng.randint(0, 3)):
        kk = rng.randrange(1, bins)
        verts.append([pt(o_a + kk * s_a, rng.uniform(0, size)), far])
    if reverse:
        verts = [[v[0], v[0]] if i >= 2 else v for i, v in enumerate(verts)]
    try:
        index = spatial_grid.Index(verts, bins, reverse)
    except Exception as exc:
        ctx.violation("exception in construction", {"fn": "Index", "vertices": verts, "bins": bins,
                                                    "reverse": reverse, "exception": repr(exc)})
        return
    if mon.geometry(index) != geo:
        ctx.count("skipped:geometry changed after adding border ends")
        mon.shadows.clear()
        return
    if mon.exact_border(border, o_a, s_a, bins) != k:
        ctx.count("skipped:border coordinate not exact in floating point")
        mon.shadows.clear()
        return
    q = pt(qa, qb)
    if sqd(q, pt(decoy_a, decoy_b)) <= sqd(q, pt(border, qb)):
        mon.shadows.clear()
        return
    ctx.case(["end exactly on a cell border", side, "border on axis %d" % axis, "bins=%d" % bins,
              "border number odd" if k % 2 else "border number even"],
             ("border", bins, size, reverse, axis, k, side, row))
    try:
        index.nearest(q)
        if rng.random() < 0.5:                  # the same after removing the decoy: global fallback
            index.remove_path(3)
            index.nearest(q)
    except Exception as exc:
        ctx.violation("exception in nearest", {"fn": "nearest", "vertices": verts, "bins": bins, "reverse": reverse,
                                               "removed": [], "query": q, "exception": repr(exc)})
    mon.shadows.clear()


def two_live_indexes(ctx, mon, rng):
    """Two indexes alive at once (the class carries mutable class-level defaults): answers and
    removals on one must not depend on the other."""
    from plotink import spatial_grid
    built = []
    for _ in range(2):
        _cls, verts = gen_vertices(rng)
        if len(verts) > 40:
            verts = verts[:40]
        xs = [p[0] for v in verts for p in v]
        ys = [p[1] for v in verts for p in v]
        if max(xs) - min(xs) + max(ys) - min(ys) == 0:
            return
        bins, reverse = rng.choice((1, 2, 3, 4, 7)), rng.random() < 0.5
        try:
            built.append((spatial_grid.Index(verts, bins, reverse), verts, bins, reverse, []))
        except Exception:
            mon.shadows.clear()
            return
    for k in range(rng.randint(4, 12)):
        index, verts, bins, reverse, removed = built[k % 2]
        _label, q = gen_query(rng, verts, index)
        ctx.case(["history: two live indexes used alternately", "bins=%d" % bins],
                 (tuple(map(tuple, (tuple(map(tuple, v)) for v in verts))), bins, reverse, tuple(removed), tuple(q), "two"),
                 nontrivial=len(verts) - len(removed) >= 2)
        try:
            got = index.nearest(q)
            if isinstance(got, int) and not isinstance(got, bool) and rng.random() < 0.5:
                path = got - len(verts) if got >= len(verts) else got
                if 0 <= path < len(verts) and path not in removed:
                    index.remove_path(path)
                    removed.append(path)
        except Exception as exc:
            ctx.violation("exception in nearest", {"fn": "nearest", "vertices": verts, "bins": bins, "reverse": reverse,
                                                   "removed": list(removed), "query": list(q), "exception": repr(exc)})
            break
    mon.shadows.clear()


def copied_index_history(ctx, mon, rng):
    """An index and an independent copy of it (copy.deepcopy / pickle round trip), each with its OWN later
    removals: each is an index of the same vertex set whose history is the removals applied to IT, so each
    answer is judged against that object's own shadow.  (copy.copy is not used: a shallow copy of the
    unchanged class shares its cell lists by construction.)  That an index can be copied at all is not part of
    the statement - a copy operation that raises is counted, not judged."""
    import copy
    import pickle
    from plotink import spatial_grid
    _cls, verts = gen_vertices(rng)
    verts = verts[:40]
    xs = [p[0] for v in verts for p in v]
    ys = [p[1] for v in verts for p in v]
    if len(verts) < 2 or max(xs) - min(xs) + max(ys) - min(ys) == 0:
        return
    bins, reverse = rng.choice((1, 2, 3, 4, 7)), rng.random() < 0.5
    n = len(verts)
    try:
        src = spatial_grid.Index(verts, bins, reverse)
        removed_src = []
        for path in rng.sample(range(n), rng.randint(0, n // 3)):
            src.remove_path(path)
            removed_src.append(path)
    except Exception:
        mon.shadows.clear()
        return          # reported by the single-index workload
    how = rng.choice(("copy.deepcopy", "pickle round trip"))
    try:
        dup = copy.deepcopy(src) if how == "copy.deepcopy" else pickle.loads(pickle.dumps(src, rng.choice((2, pickle.HIGHEST_PROTOCOL))))
    except Exception as exc:
        ctx.count("observed:%s of an index raises %s (copyability is outside the statement)" % (how, type(exc).__name__))
        mon.shadows.clear()
        return
    sh = Shadow(verts, reverse, bins)
    sh.live = set(mon.shadows[id(src)].live) if id(src) in mon.shadows else set(range(n)) - set(removed_src)
    mon.shadows[id(dup)] = sh
    both = [(src, removed_src), (dup, list(removed_src))]
    for k in range(rng.randint(4, 10)):
        index, removed = both[k % 2]
        other, _ = both[1 - k % 2]
        live = [i for i in range(n) if i not in removed]
        try:
            if live and rng.random() < 0.7:
                # remove a path on THIS object, then ask the OTHER one right at that path's start
                path = rng.choice(live)
                index.remove_path(path)
                removed.append(path)
                index, removed = both[1 - k % 2]
                q = list(verts[path][0])
            else:
                _label, q = gen_query(rng, verts, index)
            ctx.case(["history: an index and its copy with separate removals (%s)" % how,
                      "history: an index and its copy with separate removals", "bins=%d" % bins],
                     (tuple(map(tuple, (tuple(map(tuple, v)) for v in verts))), bins, reverse, tuple(removed), tuple(q), how, k % 2),
                     nontrivial=n - len(removed) >= 2)
            index.nearest(q)
        except Exception as exc:
            ctx.violation("exception in nearest", {"fn": "nearest", "vertices": verts, "bins": bins, "reverse": reverse,
                                                   "removed": list(removed), "copy": how, "exception": repr(exc)})
            break
    mon.shadows.clear()


def packed_cell_history(ctx, mon, rng):
    """Many short or closed paths whose two ends share one grid cell with a high number (fine
    grids have cells numbered above 256), removed and queried in turn."""
    bins = rng.choice((17, 20, 24, 33))
    size = 100.0
    verts = [[[0.0, 0.0], [size, size]]]
    cx, cy = rng.uniform(0.55, 0.97) * size, rng.uniform(0.55, 0.97) * size       # upper-right: cell number high
    w = size / bins * 0.2
    for _ in range(rng.randint(3, 9)):
        a = [cx + rng.uniform(-w, w), cy + rng.uniform(-w, w)]
        b = list(a) if rng.random() < 0.5 else [a[0] + rng.uniform(-w, w) * 0.5, a[1] + rng.uniform(-w, w) * 0.5]
        verts.append([a, b])
    for _ in range(rng.randint(0, 4)):
        verts.append([[rng.uniform(0, size), rng.uniform(0, size)], [rng.uniform(0, size), rng.uniform(0, size)]])
    one_history(ctx, "short / closed paths packed into one high-numbered cell", verts, bins, rng.random() < 0.8,
                rng.choice(("tour", "random", "cell-emptying")))
    mon.shadows.clear()


def huge_index(ctx, mon):
    """More than 2^20 end identifiers in one index (half a million paths with reversal enabled - a dense
    stipple or hatch fill): identifiers packed into a fixed number of bits, 16/20/24-bit counters and
    'more than a million' thresholds live here.  Queries sit exactly on ends with the highest identifiers.
    Thorough tier, first shard only (about half a minute and ~1 GB)."""
    from plotink import spatial_grid
    n = 524_300
    paths = [[[float(i % 1000), float(i // 1000)], [float(i % 1000) + 0.5, float(i // 1000) + 0.25]]
             for i in range(n)]
    for k in range(24):
        paths[n - 1 - k][1] = [2000.0 + 10 * k, 300.0 + k]
    try:
        idx = spatial_grid.Index(paths, 8, True)
    except Exception as exc:
        ctx.violation("exception in construction", {"fn": "Index", "vertices": {"count": n}, "bins": 8,
                                                    "reverse": True, "exception": repr(exc)})
        return
    sh = mon.shadows.get(id(idx))
    if sh is not None:
        sh.note = "paths i -> [[i%1000, i//1000], [i%1000+0.5, i//1000+0.25]]; the last 24 far ends at (2000+10k, 300+k)"
    for k in (0, 7, 23):
        ctx.case(["index with more than 2^20 end identifiers"], ("huge", k))
        try:
            idx.nearest(list(paths[n - 1 - k][1]))
        except Exception as exc:
            ctx.violation("exception in nearest", {"fn": "nearest", "vertices": {"count": n}, "bins": 8,
                                                   "reverse": True, "exception": repr(exc)})
    mon.shadows.pop(id(idx), None)


def run(ctx):
    from .. import wtests
    wtests.run(ctx)
    mon = install(ctx)
    rng = ctx.rng
    if ctx.tier == "thorough" and ctx.shard == 0 and not getattr(ctx, "variant", None):
        huge_index(ctx, mon)
        ctx.need("index with more than 2^20 end identifiers", 3)
    for _ in range(ctx.budget(400, 6_000)):
        packed_cell_history(ctx, mon, rng)
    for _ in range(ctx.budget(600, 8_000)):
        two_live_indexes(ctx, mon, rng)
    ctx.need("history: two live indexes used alternately", 2000)
    for _ in range(ctx.budget(500, 6_000)):
        copied_index_history(ctx, mon, rng)
    ctx.need("history: an index and its copy with separate removals", 1000)
    ctx.need("shape: vertices given as tuples / lists and tuples mixed", 200)
    for _ in range(ctx.budget(3_000, 40_000)):
        border_history(ctx, mon, rng)
    n = ctx.budget(1_500, 25_000)
    for i in range(n):
        if not ctx.alive():
            break
        if rng.random() < 0.1:
            from .. import noise
            noise.burst(ctx, rng, exclude=('grid',))
        cls, verts = gen_vertices(rng)
        bins = rng.choice((1, 2, 3, 3, 4, 5, 7, 16, 17, 20, 33))
        reverse = rng.random() < 0.5
        mode = rng.choice(("tour", "tour", "random", "cell-emptying"))
        if len(verts) <= 5:
            ctx.sample({"vertices": verts, "bins": bins, "reverse": reverse, "removals": mode}, tag=cls, per_tag=1)
        one_history(ctx, cls, verts, bins, reverse, mode)
        mon.shadows.clear()
    for cls in ("lattice coordinates", "continuous coordinates", "clustered",
                "all starts on one line (zero extent on one axis)", "closed paths (start == end)",
                "bins=1", "bins=2", "bins=3", "bins=4", "bins=5", "bins=7", "bins=16", "bins=17", "bins=20", "bins=33",
                "short / closed paths packed into one high-numbered cell",
                "reverse=True", "reverse=False", "removals:tour", "removals:random",
                "removals:cell-emptying", "query inside the grid", "query at an existing end",
                "query far outside", "query on the grid border", "query on a cell border",
                "query at the origin", "tour step", "after the last removal", "live=0", "live=1", "live=>=2",
                "answer:None (no path left)"):
        ctx.need(cls, 100)
    mon.border_verdict()
    if ctx.counters.get("skipped:grid geometry not published (neighbourhood clauses)", 0) and \
            not ctx.counters.get("monitor:neighbourhood clause applicable", 0):
        # the object under test does not publish xmin / ymin / bin sizes / bins per side any more: the
        # clauses that speak about grid cells cannot be evaluated from outside.  They are waived (and the
        # evidence says so); None-iff-empty, live-end, range, exactly-once tour and 'global nearest when
        # nothing else is closer' were still decided on every answer.
        ctx.note("grid geometry not published by the object: cell-neighbourhood clauses NOT evaluated in this run")
        ctx.extra["cell_clauses_evaluated"] = False
        for cls in ("lattice coordinates", "continuous coordinates", "reverse=True", "reverse=False", "removals:tour",
                    "tour step", "live=0", "live=>=2", "answer:None (no path left)"):
            ctx.need(cls, 100)
        ctx.need("monitor:nearest evaluated", 20_000)
        ctx.need("monitor:tour completed (exactly-once)", 300)
        contracts.uninstall_all()
        return
    for cls in ("end exactly on a cell border", "query above the border", "query below the border",
                "border number odd", "border number even", "border on axis 0", "border on axis 1"):
        ctx.need(cls, 100)
    ctx.need("monitor:border end in the neighbourhood under convention L", 300)
    ctx.need("monitor:border end in the neighbourhood under convention U", 300)
    ctx.need("monitor:nearest evaluated", 20_000)
    ctx.need("monitor:strong clause applicable", 2_000)
    ctx.need("monitor:neighbourhood clause applicable", 5_000)
    ctx.need("monitor:empty-neighbourhood fallback checked", 300)
    ctx.need("monitor:tour completed (exactly-once)", 300)
    ctx.need("hook:remove_path observed", 5_000)
    ctx.need("history: after calls to other library functions", 70)
    contracts.uninstall_all()


def replay(ctx, rec):
    mon = install(ctx)
    from plotink import spatial_grid
    w = rec["witness"]
    ctx.case(["replay"], None)
    if w.get("fn") == "border":
        for case in w["cases"]:
            index = spatial_grid.Index([[list(a), list(b)] for a, b in case["vertices"]], case["bins"], case["reverse"])
            for path in case.get("removed", []):
                index.remove_path(path)
            index.nearest(case["query"])
            index.nearest(case["query"])        # two refutations per convention are required
        mon.border_verdict()
        contracts.uninstall_all()
        return
    index = spatial_grid.Index([[list(a), list(b)] for a, b in w["vertices"]], w["bins"], w["reverse"])
    for path in w.get("removed", []):
        index.remove_path(path)
    if "query" in w:
        index.nearest(w["query"])
    contracts.uninstall_all()
