"""C09 - vertex reduction keeps the path within tolerance of the original.

Monitors: icontract snapshot + post-condition on the real plot_utils.supersample (identity
subsequence, ends kept, exact rational distance of every deleted vertex to the chord of its
surviving neighbours) and a post-condition on the real points_in_tolerance (every internal
call made by supersample / subdivideCubicPath is checked against the reference measurement
max_dist_from_n_points and against the exact rational verdict)."""
import math
from fractions import Fraction

from .. import contracts

LEVEL = "exploration"
THOROUGH_SHARDS = 16
RULE = ("seeded generator of vertex lists (length 0..400: straight, noisy-straight, random walk, "
        "integer lattice with many exact collinearities, repeated points, closed paths with a "
        "zero-length chord, spikes projecting beyond either end of the chord, runs reaching the end of "
        "the list) x tolerances (0, negative, tiny, comparable to the noise, larger than the path); "
        "distinct by (vertex tuple, tolerance); non-trivial when the list has >= 3 vertices and the "
        "tolerance is positive")
ASSUMPTIONS = ["finite coordinates; vertices are 2-element lists/tuples of ints or floats",
               "deleted-vertex distance is decided exactly (Fractions) against tol*(1+1e-9); the fast "
               "predicate is compared with the exact verdict outside a relative band of 1e-9 around "
               "equality (inside the band it is counted as borderline, not decided)"]
BAND = Fraction(1, 10 ** 9)


def band_abs(tolerance, points):
    """Half-width of the 'not decided' band around distance == tolerance: 1e-9 of the tolerance plus
    the rounding error a float distance computation cannot avoid at this coordinate magnitude
    (the cross product of two differences of coordinates of size S carries an absolute error of
    about S^2 * 2^-52; divided by a chord of length L <= 2S*sqrt(2) that is at least ~S * 2^-53 -
    64 ulp of the largest coordinate is used).  Matters only when chord / tolerance exceeds ~1e9."""
    scale = max([abs(c) for p in points for c in p] + [0.0])
    return F(tolerance) * BAND + 64 * F(2.220446049250313e-16) * F(scale)


def classify(rec):
    return None


def F(x):
    return Fraction(x)


def dist2_exact(p, a, b):
    """Exact squared distance from p to segment ab."""
    px, py, ax, ay, bx, by = F(p[0]), F(p[1]), F(a[0]), F(a[1]), F(b[0]), F(b[1])
    dx, dy = bx - ax, by - ay
    l2 = dx * dx + dy * dy
    if l2 == 0:
        return (px - ax) ** 2 + (py - ay) ** 2
    t = ((px - ax) * dx + (py - ay) * dy) / l2
    t = max(Fraction(0), min(Fraction(1), t))
    qx, qy = ax + t * dx, ay + t * dy
    return (px - qx) ** 2 + (py - qy) ** 2


def dist_float(p, a, b):
    """Float distance from p to segment ab (used only as a pre-filter for the exact test)."""
    dx, dy = b[0] - a[0], b[1] - a[1]
    l2 = dx * dx + dy * dy
    if l2 == 0:
        return math.hypot(p[0] - a[0], p[1] - a[1])
    t = ((p[0] - a[0]) * dx + (p[1] - a[1]) * dy) / l2
    t = max(0.0, min(1.0, t))
    return math.hypot(p[0] - (a[0] + t * dx), p[1] - (a[1] + t * dy))


def clearly(p, a, b, tol):
    """'below' / 'above' when the float distance decides beyond any rounding doubt, else None
    (then the caller computes exactly).  Float error of the distance is bounded far below
    1e-12 x coordinate scale; the margin used is 1e-11 x scale + 1e-6 x tol."""
    scale = max(abs(p[0]), abs(p[1]), abs(a[0]), abs(a[1]), abs(b[0]), abs(b[1]), 1e-300)
    if scale > 1e100:
        return None
    d = dist_float(p, a, b)
    margin = 1e-11 * scale + 1e-6 * tol
    if d < tol - margin:
        return "below"
    if d > tol + margin:
        return "above"
    return None


class Monitor:
    def __init__(self, ctx):
        self.ctx = ctx
        self.ref_counter = 0

    # ---- supersample -----------------------------------------------------
    def post_supersample(self, vertices, tolerance, OLD):
        ctx = self.ctx
        before = OLD.before            # list of (object, (x, y)) in original order
        ctx.count("monitor:supersample evaluated")
        witness = {"fn": "supersample", "vertices": [list(c) for _, c in before],
                   "tolerance": tolerance, "result": [list(v) for v in vertices]}
        if len(before) <= 2 or tolerance <= 0:
            if len(vertices) != len(before) or any(v is not o for v, (o, _) in zip(vertices, before)):
                ctx.violation("list changed although nothing may be deleted", witness)
            return True
        # identity subsequence.  A vertex OBJECT may occur at several positions (aliasing), so the
        # embedding of the result into the original is not unique: the statement holds if SOME in-order
        # embedding keeps the first and last position and has every deleted vertex within tolerance.
        n = len(before)
        cands = [[k for k in range(n) if before[k][0] is v] for v in vertices]
        if any(not c for c in cands):
            ctx.violation("result is not an in-order subsequence of the original vertex objects", witness)
            return True
        for v, c in zip(vertices, cands):
            if any((v[0], v[1]) != before[k][1] for k in c):
                ctx.violation("a surviving vertex was modified", witness)
                return True
        limit = (F(tolerance) + band_abs(tolerance, [c for _, c in before])) ** 2
        gap_cache = {}

        def gap_bad(a, b):
            """None if every vertex strictly between positions a and b is within tolerance of the
            chord a-b, else (index, distance) of an offender."""
            if (a, b) not in gap_cache:
                bad = None
                for k in range(a + 1, b):
                    if clearly(before[k][1], before[a][1], before[b][1], tolerance) == "below":
                        continue
                    ctx.count("exact rational distance computed")
                    d2 = dist2_exact(before[k][1], before[a][1], before[b][1])
                    if d2 >= limit:
                        bad = (k, math.sqrt(float(d2)))
                        break
                gap_cache[(a, b)] = bad
            return gap_cache[(a, b)]

        # dynamic programme over (result element, candidate position)
        order_ok = [{k: None for k in cands[0]}]            # position -> predecessor position (order only)
        for c in cands[1:]:
            prev = order_ok[-1]
            order_ok.append({k: next((p for p in sorted(prev) if p < k), None) for k in c
                             if any(p < k for p in prev)})
            if not order_ok[-1]:
                ctx.violation("result is not an in-order subsequence of the original vertex objects", witness)
                return True
        if 0 not in cands[0] or (n - 1) not in cands[-1] or (n - 1) not in order_ok[-1]:
            ctx.violation("first or last vertex not kept", witness)
            return True
        full = [{0: None}]
        offender = None
        for c in cands[1:]:
            cur = {}
            for k in c:
                for p in full[-1]:
                    if p < k:
                        bad = gap_bad(p, k)
                        if bad is None:
                            cur[k] = p
                            break
                        offender = offender or (bad, p, k)
            full.append(cur)
            if not cur:
                break
        if not full[-1] or (n - 1) not in full[-1]:
            if offender:
                (k, dist), a, b = offender
                witness.update(deleted_index=k, neighbours=[a, b], distance=dist)
            ctx.violation("deleted vertex is not within tolerance of the surviving chord", witness)
            return True
        kept = [n - 1]
        for level in range(len(full) - 1, 0, -1):
            kept.append(full[level][kept[-1]])
        kept.reverse()
        deleted = n - len(kept)
        if any(len(c) > 1 for c in cands):
            ctx.count("monitor:embedding chosen among several (aliased vertex objects)")
        ctx.count("monitor:deleted vertices checked", deleted)
        if deleted:
            ctx.tag("outcome:some vertices deleted")
        else:
            ctx.tag("outcome:nothing deleted")
        return True

    # ---- points_in_tolerance --------------------------------------------
    def post_pit(self, input_points, tolerance, result):
        ctx = self.ctx
        from plotink import plot_utils
        if len(input_points) < 3 or not tolerance > 0:
            ctx.count("skipped:predicate outside domain")
            return True
        ctx.count("monitor:points_in_tolerance evaluated")
        pts = [(p[0], p[1]) for p in input_points]
        witness = {"fn": "points_in_tolerance", "points": [list(p) for p in pts], "tolerance": tolerance,
                   "got": result}
        if not isinstance(result, bool):
            ctx.violation("predicate did not return a boolean", witness)
            return True
        # float pre-filter: only points whose distance is too close to the tolerance for floats
        # to decide are measured exactly
        verdicts = [clearly(p, pts[0], pts[-1], tolerance) for p in pts[1:-1]]
        if "above" in verdicts:
            exact = False
        elif all(v == "below" for v in verdicts):
            exact = True
        else:
            ctx.count("exact rational distance computed")
            d2max = max(dist2_exact(p, pts[0], pts[-1])
                        for p, v in zip(pts[1:-1], verdicts) if v is None)
            t2 = F(tolerance) ** 2
            witness["exact_max_distance_of_undecided_points"] = math.sqrt(float(d2max))
            half = band_abs(tolerance, pts)
            lo, hi = max(F(tolerance) - half, 0) ** 2, (F(tolerance) + half) ** 2
            if lo <= d2max <= hi:
                ctx.count("borderline (max distance within 1e-9 of the tolerance): not decided")
                return True
            exact = d2max < t2
        if result is not exact:
            ctx.violation("fast predicate disagrees with the exact distance", witness)
            return True
        self.ref_counter += 1
        if len(pts) > 12 and self.ref_counter % 6:
            return True         # the (slow) reference measurement is sampled on long runs
        try:
            ref = plot_utils.max_dist_from_n_points(input_points)
        except Exception as exc:
            witness["exception"] = repr(exc)
            ctx.violation("reference measurement raised", witness)
            return True
        ctx.count("monitor:agreement with max_dist_from_n_points evaluated")
        if ref != ref:      # NaN from a zero-length chord in the reference: not comparable
            ctx.count("reference measurement returned NaN (zero-length chord): not compared")
            return True
        if (ref < tolerance) is not result:
            witness["reference_max_distance"] = ref
            ctx.violation("fast predicate disagrees with the reference measurement", witness)
        return True


def install(ctx):
    from plotink import plot_utils
    mon = Monitor(ctx)

    def before(vertices):
        return [(v, (v[0], v[1])) for v in vertices]

    contracts.install(plot_utils, "points_in_tolerance", post=mon.post_pit, ctx=ctx)
    contracts.install(plot_utils, "supersample", post=mon.post_supersample,
                      snapshots={"before": before}, ctx=ctx)
    return mon


# ---------------------------------------------------------------- generators
def gen_long_chord(rng):
    """Chords 1e6..1e12 times longer than the tolerance, with vertices that overshoot the chord's
    end (or undershoot its start) by a few tolerances - distances are small differences of huge
    coordinates."""
    tol = rng.choice((0.1, 0.25, 1.0, 0.01))
    length = 10 ** rng.uniform(6, 11)
    ang = rng.choice((0.0, math.pi / 2, rng.uniform(0, 2 * math.pi)))
    ux, uy = math.cos(ang), math.sin(ang)
    ox, oy = rng.uniform(-1, 1) * length * 0.05, rng.uniform(-1, 1) * length * 0.05
    pts = [[ox, oy]]
    for _ in range(rng.randint(1, 3)):
        k = rng.choice((0.3, 0.8, 1.5, 3.0, 5.0, 9.0))            # overshoot in tolerances
        side = rng.choice((1.0, -1.0))
        lat = rng.uniform(-0.3, 0.3) * tol
        if side > 0:
            a = length + k * tol
        else:
            a = -k * tol
        pts.append([ox + ux * a - uy * lat, oy + uy * a + ux * lat])
    pts.append([ox + ux * length, oy + uy * length])
    if rng.random() < 0.5:
        pts.append([ox + ux * (length * 1.5), oy + uy * (length * 1.5) + tol * 3])
    return ["long chord, overshoot by a few tolerances (chord/tolerance 1e6..1e12)",
            "tolerance comparable to the deviations"], pts, tol


def gen_cluster(rng):
    """A few consecutive vertices inside a box about one tolerance wide, then the path leaves (and
    perhaps comes back).  The box straddles the coordinate axes (origin), a lattice point or an
    arbitrary point; vertices sit near its corners as often as inside, so consecutive ones are
    0.7..1.4 tolerances apart - right where 'close enough to merge' short cuts (snapping to a grid,
    comparing rounded coordinates) and the real distance test part ways, and where truncation toward
    zero differs from floor."""
    tol = rng.choice((1.0, 1.0, 0.5, 0.1, 2.75, 2.5, 0.01, rng.uniform(0.05, 5)))
    where = rng.randrange(4)
    if where <= 1:
        cx, cy = 0.0, 0.0
    elif where == 2:
        cx, cy = float(rng.randint(-3, 3)), float(rng.randint(-3, 3))
    else:
        cx, cy = rng.uniform(-10, 10), rng.uniform(-10, 10)
    lattice = where == 2 and rng.random() < 0.5
    pts = []
    for _rep in range(rng.randint(1, 3)):
        if rng.random() < 0.5:
            r = rng.uniform(3, 60) * tol
            a = rng.uniform(0, 2 * math.pi)
            pts.append([cx + r * math.cos(a), cy + r * math.sin(a)])
        for _ in range(rng.randint(2, 4)):
            if rng.random() < 0.6:
                u = rng.choice((-1, 1)) * rng.uniform(0.25, 0.55)
                v = rng.choice((-1, 1)) * rng.uniform(0.25, 0.55)
            else:
                u, v = rng.uniform(-0.6, 0.6), rng.uniform(-0.6, 0.6)
            pts.append([cx + u * tol, cy + v * tol])
        r = rng.uniform(3, 60) * tol
        a = rng.choice((rng.uniform(0, 2 * math.pi), math.pi * 1.25, math.pi * 0.25, math.pi * 0.75, math.pi * 1.75))
        pts.append([cx + r * math.cos(a), cy + r * math.sin(a)])
    if lattice:
        pts = [[round(x), round(y)] for x, y in pts]
    return ["cluster about one tolerance wide (around the origin / a lattice point / anywhere), then away",
            "tolerance comparable to the deviations",
            "cluster straddles the coordinate axes" if where <= 1 else "cluster away from the axes"], pts, tol


def gen_spike(rng):
    """A, B, C with |AB| between 0.85 and 1.3 tolerances and C lying behind A (the path doubles back):
    B's distance to the chord A-C is its distance to the END A, i.e. |AB| itself - the vertex may go
    exactly when |AB| < tolerance.  The pair A, B straddles the origin, a lattice point, or any point;
    directions favour the axes and the diagonals."""
    tol = rng.choice((1.0, 1.0, 0.5, 0.1, 2.75, 2.5, 0.01, rng.uniform(0.05, 5)))
    where = rng.randrange(4)
    if where <= 1:
        cx, cy = 0.0, 0.0
    elif where == 2:
        cx, cy = float(rng.randint(-3, 3)), float(rng.randint(-3, 3))
    else:
        cx, cy = rng.uniform(-10, 10), rng.uniform(-10, 10)
    pts = []
    if rng.random() < 0.3:
        pts.append([cx + rng.uniform(-50, 50) * tol, cy + rng.uniform(-50, 50) * tol])
    for _rep in range(rng.randint(1, 2)):
        ang = rng.choice((0, 1, 2, 3, 4, 5, 6, 7)) * math.pi / 4 + rng.uniform(-0.08, 0.08) \
            if rng.random() < 0.6 else rng.uniform(0, 2 * math.pi)
        d = rng.uniform(0.85, 1.3) * tol
        off = rng.uniform(0.4, 0.6)
        ex, ey = math.cos(ang), math.sin(ang)
        ax, ay = cx - off * d * ex, cy - off * d * ey
        bx, by = ax + d * ex, ay + d * ey
        back = ang + math.pi + rng.uniform(-0.7, 0.7)
        r = rng.uniform(3, 40) * tol
        pts += [[ax, ay], [bx, by], [ax + r * math.cos(back), ay + r * math.sin(back)]]
    return ["spike about one tolerance long, path doubles back (distance to the chord END decides)",
            "tolerance comparable to the deviations",
            "cluster straddles the coordinate axes" if where <= 1 else "cluster away from the axes"], pts, tol


def gen_near_pair(rng):
    """A chord A-D many tolerances long with two NEARLY COINCIDENT consecutive interior vertices (closer
    together than a hundredth of the tolerance) about one tolerance off the chord: one just inside the
    tolerance, one just outside, in either order - or both on the same side of the limit.  Whatever is
    deleted must lie within the tolerance of what survives; treating the pair as one vertex does not."""
    tol = rng.choice((1.0, 1.0, 0.5, 0.1, 2.5, 0.01, rng.uniform(0.05, 5)))
    ang = rng.choice((0, 1, 2, 3, 4, 5, 6, 7)) * math.pi / 4 if rng.random() < 0.5 else rng.uniform(0, 2 * math.pi)
    ex, ey = math.cos(ang), math.sin(ang)
    nx, ny = -ey, ex
    ox, oy = rng.choice(((0.0, 0.0), (rng.uniform(-10, 10), rng.uniform(-10, 10))))
    length = rng.uniform(5, 30) * tol
    pts = [[ox, oy]]
    for _rep in range(rng.randint(1, 2)):
        s = rng.uniform(0.3, 0.7) * length
        side = rng.choice((1, -1))
        u, v = rng.uniform(0.0005, 0.0045), rng.uniform(0.0005, 0.0045)
        kind = rng.randrange(4)
        h1, h2 = ((1 - u, 1 + v), (1 + v, 1 - u), (1 - u, 1 - u / 2), (1 + v / 2, 1 + v))[kind]
        ds = rng.uniform(-0.002, 0.002) * tol
        for h, t in ((h1, s), (h2, s + ds)):
            pts.append([ox + t * ex + side * h * tol * nx, oy + t * ey + side * h * tol * ny])
        ox, oy = ox + length * ex, oy + length * ey
        pts.append([ox, oy])
    return ["two nearly coincident consecutive vertices about one tolerance off the chord",
            "tolerance comparable to the deviations"], pts, tol


def gen_very_long(rng):
    """Thousands of vertices (a densely sampled arc / spiral / noisy trend line, as a plotted curve or a
    digitised drawing is): anything that works through a long list in blocks, windows or with a size
    threshold meets its seams here."""
    n = rng.choice((4097, 4098, 5000, 8193, 8193, 9000, 9000, 12000, 12000, 20000, 20000))
    style = rng.choice((0, 0, 1, 2))
    pts = []
    if style == 0:
        r = rng.uniform(50, 500)
        span = rng.uniform(1.0, 6.0)
        pts = [[r * math.cos(span * i / n), r * math.sin(span * i / n)] for i in range(n)]
        sag = r * (1 - math.cos(span / n * 8))          # deviation of ~16 samples from their chord
    elif style == 1:
        pts = [[(5 + 0.002 * i) * math.cos(0.01 * i), (5 + 0.002 * i) * math.sin(0.01 * i)] for i in range(n)]
        sag = 5 * (1 - math.cos(0.08))
    else:
        y = 0.0
        for i in range(n):
            y += rng.gauss(0.002, 0.01)
            pts.append([i * 0.05, y + 3 * math.sin(i / 700.0)])
        sag = 0.03
    tol = sag * rng.choice((1.0, 2.0, 4.0))
    return ["very long path (4097..20000 vertices)", "tolerance comparable to the deviations"], pts, tol


def gen_function_graph(rng):
    """A sampled waveform: x strictly increasing (sorted input), 24..400 samples, swings that are much
    steeper than the sample spacing - a vertex between the chord ends in x may still project beyond a
    chord END, so 'distance to the carrier line' and 'distance to the segment' part ways."""
    n = rng.choice((24, 25, 30, 60, 181, 400))
    dx = rng.choice((0.02, 0.05, 0.1, 1.0))
    amp = dx * rng.choice((20, 50, 100, 400))
    x = rng.uniform(-5, 5)
    pts = []
    style = rng.randrange(3)
    for i in range(n):
        x += dx * rng.uniform(0.5, 1.5)
        if style == 0:
            y = amp * math.sin(i * rng.choice((1.3, 2.1, 2.9))) + rng.gauss(0, amp * 0.01)
        elif style == 1:
            y = amp * (1 if i % 2 else -1) * rng.uniform(0.6, 1.0)
        else:
            y = amp * rng.uniform(-1, 1)
        pts.append([x, y])
    tol = dx * rng.choice((0.5, 1.0, 1.2, 3.0, 10.0))
    return ["function graph: x strictly increasing, steep swings (sorted input)",
            "tolerance comparable to the deviations"], pts, tol


def gen_path(rng):
    if rng.random() < 0.05:
        return gen_long_chord(rng)
    if rng.random() < 0.06:
        return gen_function_graph(rng)
    if rng.random() < 0.08:
        return gen_cluster(rng)
    if rng.random() < 0.10:
        return gen_spike(rng)
    if rng.random() < 0.07:
        return gen_near_pair(rng)
    c = rng.random()
    n = rng.choice((0, 1, 2, 3, 3, 4, 5, 6, 8, rng.randint(3, 30), rng.randint(10, 120), rng.randint(50, 400)))
    pts = []
    noise = 0.0
    if c < 0.12:
        cls = "straight"
        x0, y0, dx, dy = rng.uniform(-10, 10), rng.uniform(-10, 10), rng.uniform(-2, 2), rng.uniform(-2, 2)
        pts = [[x0 + i * dx, y0 + i * dy] for i in range(n)]
    elif c < 0.30:
        cls = "noisy straight"
        noise = rng.choice((1e-6, 1e-3, 0.01, 0.1))
        x0, y0, dx, dy = rng.uniform(-10, 10), rng.uniform(-10, 10), rng.uniform(-2, 2), rng.uniform(-2, 2)
        pts = [[x0 + i * dx + rng.gauss(0, noise), y0 + i * dy + rng.gauss(0, noise)] for i in range(n)]
    elif c < 0.45:
        cls = "random walk"
        x, y = 0.0, 0.0
        for _ in range(n):
            x += rng.gauss(0, 1)
            y += rng.gauss(0, 1)
            pts.append([x, y])
        noise = 1.0
    elif c < 0.62:
        cls = "integer lattice"
        x, y = rng.randint(-3, 3), rng.randint(-3, 3)
        for _ in range(n):
            x += rng.choice((-1, 0, 0, 1, 1, 2))
            y += rng.choice((-1, 0, 0, 1))
            pts.append([x, y])
        noise = 1.0
    elif c < 0.72:
        cls = "repeated points"
        base = [[rng.randint(0, 3), rng.randint(0, 3)] for _ in range(max(1, n // 3))]
        pts = [list(rng.choice(base)) for _ in range(n)]
        noise = 1.0
    elif c < 0.82:
        cls = "closed path (first == last)"
        r = rng.uniform(0.5, 20)
        k = max(n - 1, 1)
        pts = [[r * math.cos(2 * math.pi * i / k), r * math.sin(2 * math.pi * i / k)] for i in range(k)]
        if pts:
            pts.append(list(pts[0]))
        noise = r / 10
    elif c < 0.92:
        cls = "spikes beyond the chord ends"
        x = 0.0
        for i in range(n):
            x += rng.uniform(0.1, 1)
            if rng.random() < 0.3:
                pts.append([x + rng.choice((-1, 1)) * rng.uniform(1, 5), rng.gauss(0, 0.01)])
            else:
                pts.append([x, rng.gauss(0, 0.01)])
        noise = 0.02
    else:
        cls = "smooth curve (densely sampled)"
        k = rng.uniform(0.02, 0.3)
        pts = [[i * 0.1, math.sin(i * k)] for i in range(n)]
        noise = 0.05
    c = rng.random()
    if c < 0.06:
        tcls, tol = "tolerance 0", 0
    elif c < 0.12:
        tcls, tol = "tolerance negative", -rng.uniform(0.001, 5)
    elif c < 0.25:
        tcls, tol = "tolerance tiny", rng.choice((1e-12, 1e-9, 1e-6))
    elif c < 0.65:
        tcls, tol = "tolerance comparable to the deviations", (noise or 0.01) * rng.uniform(0.3, 4)
    elif c < 0.85:
        tcls, tol = "tolerance larger than the path", 1e4
    else:
        tcls, tol = "tolerance integer/lattice", rng.choice((1, 2, 1.5, 0.5, 1.0000001, 1.4142135623730951))
    if rng.random() < 0.15:
        pts = [tuple(p) for p in pts]
    extra = []
    if len(pts) >= 4 and rng.random() < 0.12:
        # aliasing: one vertex object appears more than once (a loop closed with path.append(path[k]),
        # a stem walked there and back, the final vertex being an earlier object)
        k = rng.randrange(0, len(pts) - 1)
        style = rng.randrange(3)
        if style == 0:
            pts.append(pts[k])
        elif style == 1:
            pts[-1] = pts[k]
        else:
            pts.insert(rng.randrange(k + 1, len(pts) + 1), pts[k])
        extra = ["aliasing: the same vertex object at several positions"]
    return [cls, tcls] + extra, pts, tol


def plot_utils_mod():
    from plotink import plot_utils
    return plot_utils


def one_case(ctx, pts, tol):
    from plotink import plot_utils
    try:
        out = plot_utils.supersample(pts, tol)
        if out is not None:
            ctx.count("observed:supersample returned a value (only the mutation is specified)")
    except Exception as exc:
        ctx.violation("exception", {"fn": "supersample", "vertices": [list(p) for p in pts],
                                    "tolerance": tol, "exception": repr(exc)})


def run(ctx):
    from .. import wtests
    wtests.run(ctx)
    install(ctx)
    rng = ctx.rng
    n = ctx.budget(5_000, 90_000)
    every = max(1, n // ctx.budget(16, 24))      # a fixed number of very long paths, spread over the run
    for _i in range(n):
        if not ctx.alive():
            break
        if rng.random() < 0.03:
            from .. import noise
            noise.burst(ctx, rng, exclude=('simplify', 'bezier'))
        if rng.random() < 0.01:
            from ..gen_stepper import failed_call
            failed_call(rng, rng.choice((plot_utils_mod().supersample, plot_utils_mod().points_in_tolerance)), 2)
            ctx.tag("history: after a failed call (malformed arguments)")
        classes, pts, tol = gen_very_long(rng) if _i % every == every // 2 else gen_path(rng)
        ln = len(pts)
        classes.append("len=%s" % (str(ln) if ln <= 3 else "4..30" if ln <= 30 else ">30"))
        ctx.case(classes, (tuple(map(tuple, pts)), tol), nontrivial=ln >= 3 and tol > 0)
        if ln <= 8:
            ctx.sample({"vertices": [list(p) for p in pts], "tolerance": tol}, tag=classes[0], per_tag=1)
        original = [list(p) if isinstance(p, list) else tuple(p) for p in pts]
        # the predicate clause is driven directly (not only through supersample's internal calls, which
        # a refactor may legitimately route elsewhere): windows of the path, incl. overshooting ones
        if ln >= 3 and tol > 0:
            for _w in range(8):
                i = rng.randrange(0, ln - 2)
                j = min(ln, i + rng.choice((3, 3, 4, 5, 8, rng.randint(3, 12))))
                window = [tuple(p) for p in pts[i:j]]
                try:
                    plot_utils_mod().points_in_tolerance(window, tol * rng.choice((1.0, 1.0, 0.5, 2.0, 10.0)))
                except Exception as exc:
                    ctx.violation("exception", {"fn": "points_in_tolerance", "points": [list(q) for q in window],
                                                "tolerance": tol, "exception": repr(exc)})
        one_case(ctx, pts, tol)
        # history: the already reduced list again (another tolerance), then the original vertices with a
        # related tolerance - every call must satisfy the statement on its own input
        if ln >= 3 and rng.random() < 0.2:
            for k in range(rng.randint(1, 3)):
                choice = rng.randrange(3)
                if choice == 0:
                    pts2, tol2 = pts, (abs(tol) or 0.1) * rng.choice((1.0, 2.0, 10.0))
                elif choice == 1:
                    pts2, tol2 = [list(p) if isinstance(p, list) else tuple(p) for p in original], \
                        tol * rng.choice((0.5, 1.0, 1.5, 0.0, -1.0))
                else:
                    pts2 = [list(p) if isinstance(p, list) else tuple(p) for p in reversed(original)]
                    tol2 = tol
                ctx.case(["history: related call (same vertices / same tolerance as the previous one)",
                          "history kind %d" % choice], (tuple(map(tuple, pts2)), tol2, "after", k))
                one_case(ctx, pts2, tol2)
    for cls in ("aliasing: the same vertex object at several positions",
                "history: related call (same vertices / same tolerance as the previous one)",
                "long chord, overshoot by a few tolerances (chord/tolerance 1e6..1e12)", "straight", "noisy straight", "random walk", "integer lattice", "repeated points",
                "closed path (first == last)", "spikes beyond the chord ends",
                "smooth curve (densely sampled)", "tolerance 0", "tolerance negative", "tolerance tiny",
                "tolerance comparable to the deviations", "tolerance larger than the path",
                "tolerance integer/lattice", "len=0", "len=1", "len=2", "len=3", "len=4..30", "len=>30",
                "outcome:some vertices deleted", "outcome:nothing deleted"):
        ctx.need(cls, 50)
    ctx.need("spike about one tolerance long, path doubles back (distance to the chord END decides)", 200)
    ctx.need("very long path (4097..20000 vertices)", 12)
    ctx.need("function graph: x strictly increasing, steep swings (sorted input)", 150)
    ctx.need("cluster straddles the coordinate axes", 150)
    ctx.need("cluster away from the axes", 150)
    ctx.need("two nearly coincident consecutive vertices about one tolerance off the chord", 150)
    ctx.need("monitor:supersample evaluated", 3_000)
    ctx.need("history: after a failed call (malformed arguments)", 20)
    ctx.need("monitor:points_in_tolerance evaluated", 10_000)
    ctx.need("monitor:agreement with max_dist_from_n_points evaluated", 10_000)
    ctx.need("monitor:deleted vertices checked", 10_000)
    ctx.need("history: after calls to other library functions", 60)
    contracts.uninstall_all()


def replay(ctx, rec):
    install(ctx)
    from plotink import plot_utils
    w = rec["witness"]
    ctx.case(["replay"], None)
    if w["fn"] == "points_in_tolerance":
        plot_utils.points_in_tolerance([tuple(p) for p in w["points"]], w["tolerance"])
    else:
        one_case(ctx, [list(p) for p in w["vertices"]], w["tolerance"])
    contracts.uninstall_all()
