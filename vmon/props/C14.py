"""C14 - R-tree intersection query == brute force.

Monitors: hooks on the real rtree.Index.__init__ (records the box collection of every
top-level construction, counts nodes - termination watchdog) and an icontract
post-condition on the real Index.intersection evaluated at the top level of each query:
returned id set == {id : closed boxes share a point}, computed on the same floats."""
import functools

from .. import contracts

LEVEL = "exploration"
THOROUGH_SHARDS = 16
RULE = ("seeded generator of box collections (0..400 boxes: integer lattice - boxes exactly on the "
        "mean-centre split lines -, zero-width, zero-height, points, duplicates, nested, shared "
        "edges/corners, continuous, single box) x query boxes (touching by an edge / a corner, "
        "degenerate, covering all, disjoint, random, equal to a stored box); one evaluation = one "
        "(collection, query) pair; distinct by (collection, query); non-trivial when the collection "
        "has >= 2 boxes")
ASSUMPTIONS = ["boxes satisfy min <= max on both axes and have finite coordinates",
               "brute force uses the same float comparisons (closed intervals): no tolerance involved",
               "trees are at most 400 levels deep (geometric-progression class); the interpreter's recursion "
               "budget is widened to 6000 frames in the monitoring process only to make room for the contract "
               "wrappers' own frames"]
NODE_CAP = 300_000


def classify(rec):
    return None


class ConstructionTooLarge(Exception):
    pass


class Monitor:
    def __init__(self, ctx):
        self.ctx = ctx
        self.depth_init = 0
        self.depth_query = 0
        self.nodes = 0
        self.registry = {}          # id(index) -> list of (id, box) given to the top-level constructor

    def brute(self, boxes, query):
        x_1, y_1, x_2, y_2 = query
        out = set()
        for ident, (xmin, ymin, xmax, ymax) in boxes:
            if x_1 <= xmax and x_2 >= xmin and y_1 <= ymax and y_2 >= ymin:
                out.add(ident)
        return out

    def post_query(self, self_, bbox, result):
        if self.depth_query != 1:
            return True
        ctx = self.ctx
        boxes = self.registry.get(id(self_))
        if boxes is None:
            ctx.count("skipped:index not built under the monitor")
            return True
        ctx.count("monitor:intersection evaluated (top level)")
        want = self.brute(boxes, bbox)
        if not isinstance(result, set) or result != want:
            got = set(result) if isinstance(result, (set, list, tuple)) else result
            ctx.violation("intersection != brute force", {
                "fn": "intersection", "boxes": boxes, "query": list(bbox),
                "missed": sorted(want - got) if isinstance(got, set) else None,
                "extra": sorted(got - want) if isinstance(got, set) else None})
        return True


def install(ctx):
    from plotink import rtree
    import icontract
    mon = Monitor(ctx)
    cls = rtree.Index
    orig_init = cls.__init__
    orig_query = cls.intersection

    @functools.wraps(orig_init)
    def init(self, bboxes, *args, **kwargs):      # signature-agnostic: private extra parameters are allowed
        if mon.depth_init == 0:
            mon.nodes = 0
            mon.registry[id(self)] = list(bboxes)
        mon.nodes += 1
        if mon.nodes > NODE_CAP:
            raise ConstructionTooLarge()
        mon.depth_init += 1
        try:
            return orig_init(self, bboxes, *args, **kwargs)
        finally:
            mon.depth_init -= 1

    def post(_ARGS, _KWARGS, result):        # name-independent: (self, query box)
        vals = list(_ARGS) + list(_KWARGS.values())
        return mon.post_query(vals[0], vals[1], result)

    checked_query = icontract.ensure(post, error=contracts.ContractError, enabled=True)(orig_query)

    @functools.wraps(orig_query)
    def intersection(self, *args, **kwargs):      # signature-agnostic (private extra parameters are allowed)
        mon.depth_query += 1
        try:
            return checked_query(self, *args, **kwargs)
        finally:
            mon.depth_query -= 1

    cls.__init__ = init
    cls.intersection = intersection
    contracts._installed.append((cls, "__init__", orig_init))
    contracts._installed.append((cls, "intersection", orig_query))
    return mon


# ---------------------------------------------------------------- generators
def gen_boxes(rng):
    """(class, list of (id, (xmin, ymin, xmax, ymax)))"""
    c = rng.random()
    n = rng.choice((0, 1, 2, 3, 4, 5, 8, 13, rng.randint(6, 60), rng.randint(20, 400)))
    boxes = []
    if c < 0.012:
        # coordinates in geometric progression: the mean centre is dominated by the largest box, so
        # every level of the tree peels off one box and the tree is as deep as the collection is long
        # (hundreds of levels) - depth caps, level-bounded walks and recursion budgets live here
        cls = "geometric progression (tree hundreds of levels deep)"
        n = rng.choice((150, 201, 202, 230, 260, 300, 400))
        style = rng.randrange(4)
        from fractions import Fraction
        for k in range(n):
            if style == 0:
                v = 2.0 ** (min(8 * k, 2000) - 1000)
            elif style == 1:
                v = -(2.0 ** (min(8 * k, 2000) - 1000))
            elif style == 2:
                v = Fraction(1000) ** k
            else:
                v = float(3 ** min(k, 600)) if k < 600 else 3.0 ** 600
            if rng.random() < 0.5:
                boxes.append((v, v, v, v))
            else:
                lo, hi = (v, v + abs(v) / 4) if v >= 0 else (v - abs(v) / 4, v)
                boxes.append((lo, lo, hi, hi))
        if style == 3:
            boxes = boxes[:400]
    elif c < 0.04:
        # finite but extreme coordinates: sums of two coordinates overflow, both signs present,
        # mixed with ordinary and sub-normal boxes
        cls = "extreme magnitudes (sums overflow)"
        n = max(2, min(n, 12))
        big = (1e308, 1.7e308, 8.9e307, 1.2e308, 1.79e308)
        for _ in range(n):
            k = rng.randrange(6)
            y0 = rng.choice((0.0, 1.0, -1e308, 1e308, rng.uniform(-5, 5)))
            y1 = y0 if rng.random() < 0.3 else max(y0, rng.choice((1.0, 1.7e308, y0 + 1)))
            if k == 0:
                a, b = sorted((rng.choice(big), rng.choice(big)))
                boxes.append((a, y0, b, y1))
            elif k == 1:
                a, b = sorted((-rng.choice(big), -rng.choice(big)))
                boxes.append((a, y0, b, y1))
            elif k == 2:
                boxes.append((-rng.choice(big), y0, rng.choice(big), y1))
            elif k == 3:
                boxes.append((rng.uniform(0, 1), rng.uniform(0, 1), rng.uniform(1, 2), rng.uniform(1, 2)))
            elif k == 4:
                boxes.append((5e-324, 0.0, 1e-310, 2e-308))
            else:
                a = rng.choice(big) * rng.choice((1, -1))
                boxes.append((a, a, a, a))
        boxes = [(x0, min(yy0, yy1), x1, max(yy0, yy1)) for x0, yy0, x1, yy1 in boxes]
    elif c < 0.08:
        # exact numeric types: Fraction or Decimal coordinates (one type per collection), many of them
        # without an exact binary representation, with shared edges so that queries touch exactly
        from decimal import Decimal
        from fractions import Fraction
        cls = "coordinates given as Fraction / Decimal"
        use_dec = rng.random() < 0.5
        n = max(1, min(n, 25))

        def num():
            k = rng.randint(-30, 30)
            return Decimal(k) / Decimal(10) if use_dec else Fraction(k, rng.choice((3, 7, 10)))
        for _ in range(n):
            x, y = num(), num()
            w = rng.choice((0, 1, 2, 3)) * (Decimal("0.1") if use_dec else Fraction(1, 3))
            h = rng.choice((0, 1, 2, 3)) * (Decimal("0.1") if use_dec else Fraction(1, 3))
            boxes.append((x, y, x + w, y + h))
    elif c < 0.22:
        cls = "integer lattice"
        span = rng.choice((3, 6, 12, 40))
        for _ in range(n):
            x, y = rng.randint(0, span), rng.randint(0, span)
            w, h = rng.choice((0, 0, 1, 2, rng.randint(0, span))), rng.choice((0, 0, 1, 2, rng.randint(0, span)))
            boxes.append((x, y, x + w, y + h))
    elif c < 0.36:
        cls = "strokes (zero-width / zero-height)"
        for _ in range(n):
            x, y = rng.uniform(0, 100), rng.uniform(0, 100)
            if rng.random() < 0.5:
                boxes.append((x, y, x, y + rng.uniform(0, 30)))
            else:
                boxes.append((x, y, x + rng.uniform(0, 30), y))
    elif c < 0.44:
        cls = "points"
        for _ in range(n):
            x, y = rng.choice((rng.randint(0, 5), rng.uniform(0, 5))), rng.choice((rng.randint(0, 5), rng.uniform(0, 5)))
            boxes.append((x, y, x, y))
    elif c < 0.54:
        cls = "duplicates"
        base = [(x, y, x + rng.randint(0, 3), y + rng.randint(0, 3))
                for x, y in ((rng.randint(0, 8), rng.randint(0, 8)) for _ in range(max(1, n // 4)))]
        boxes = [rng.choice(base) for _ in range(n)]
    elif c < 0.64:
        cls = "nested"
        cx, cy = rng.uniform(-5, 5), rng.uniform(-5, 5)
        for i in range(n):
            r = rng.choice((i + 1, rng.uniform(0, n + 1)))
            dx, dy = (rng.uniform(-0.4, 0.4), rng.uniform(-0.4, 0.4)) if rng.random() < 0.3 else (0, 0)
            boxes.append((cx - r + dx, cy - r + dy, cx + r + dx, cy + r + dy))
        boxes = boxes[:60]          # heavy overlap duplicates boxes into every quadrant: keep it small
    elif c < 0.74:
        cls = "shared edges (tiling)"
        k = max(1, int(n ** 0.5))
        step = rng.choice((1, 2.5, 10))
        for i in range(k):
            for j in range(k):
                boxes.append((i * step, j * step, (i + 1) * step, (j + 1) * step))
    elif c < 0.80:
        cls = "collinear strokes"
        y = rng.randint(0, 5)
        for _ in range(n):
            x = rng.randint(0, 30)
            boxes.append((x, y, x + rng.randint(0, 5), y))
    else:
        cls = "continuous"
        for _ in range(n):
            x, y = rng.uniform(-100, 100), rng.uniform(-100, 100)
            boxes.append((x, y, x + rng.expovariate(0.1), y + rng.expovariate(0.1)))
    ids = list(range(len(boxes)))
    if rng.random() < 0.2:
        ids = [i * 7 + 3 for i in ids]
    elif rng.random() < 0.1:
        ids = ["p%d" % i for i in ids]
    elif len(boxes) >= 2 and rng.random() < 0.12:
        # one identifier for several boxes (the strokes of one multi-part shape): the identifier is in the
        # answer exactly when ANY of its boxes shares a point with the query
        labels = ["s%d" % k for k in range(max(1, len(boxes) // rng.choice((2, 3, 5))))]
        ids = [rng.choice(labels) for _ in boxes]
    return cls, [(ident, tuple(box)) for ident, box in zip(ids, boxes)]


def gen_query(rng, boxes):
    c = rng.random()
    if not boxes:
        return "any (empty index)", (rng.uniform(-5, 5), rng.uniform(-5, 5), rng.uniform(5, 9), rng.uniform(5, 9))
    _, (xmin, ymin, xmax, ymax) = rng.choice(boxes)
    allx0 = min(b[1][0] for b in boxes)
    ally0 = min(b[1][1] for b in boxes)
    allx1 = max(b[1][2] for b in boxes)
    ally1 = max(b[1][3] for b in boxes)
    if type(allx0).__name__ in ("Decimal", "Fraction"):
        # queries in the same exact type: touching a stored box by an edge / a corner, equal to it, random
        one = type(allx0)(1)
        k = rng.randrange(5)
        if k == 0:
            return "exact type: touching by an edge", (xmax, ymin, xmax + one, ymax)
        if k == 1:
            return "exact type: touching by a corner", (xmax, ymax, xmax + one, ymax + one)
        if k == 2:
            return "exact type: touching from below/left", (xmin - one, ymin - one, xmin, ymax)
        if k == 3:
            return "exact type: equal to a stored box", (xmin, ymin, xmax, ymax)
        return "exact type: covering all", (allx0, ally0, allx1, ally1)
    w, h = max(allx1 - allx0, 1), max(ally1 - ally0, 1)
    if w == float("inf") or h == float("inf") or max(abs(allx0), abs(allx1), abs(ally0), abs(ally1)) > 1e300:
        # extreme collection: keep the query finite (no arithmetic on the extremes)
        pts_x = sorted({b[1][0] for b in boxes} | {b[1][2] for b in boxes} | {0.0, 1.0, -1.79e308, 1.79e308})
        pts_y = sorted({b[1][1] for b in boxes} | {b[1][3] for b in boxes} | {0.0, 1.0, -1.79e308, 1.79e308})
        x0, x1 = sorted((rng.choice(pts_x), rng.choice(pts_x)))
        y0, y1 = sorted((rng.choice(pts_y), rng.choice(pts_y)))
        return "extreme query", (x0, y0, x1, y1)
    if c < 0.14:
        side = rng.randrange(4)
        ext = rng.choice((0, 1, w / 3))
        if side == 0:
            q = (xmax, ymin - ext, xmax + ext + rng.choice((0, 1)), ymax + ext)
        elif side == 1:
            q = (xmin - ext - rng.choice((0, 1)), ymin - ext, xmin, ymax + ext)
        elif side == 2:
            q = (xmin - ext, ymax, xmax + ext, ymax + ext + rng.choice((0, 1)))
        else:
            q = (xmin - ext, ymin - ext - rng.choice((0, 1)), xmax + ext, ymin)
        return "touching a box by an edge", q
    if c < 0.24:
        corner = rng.randrange(4)
        d = rng.choice((1, 0, w / 5))
        if corner == 0:
            q = (xmax, ymax, xmax + d, ymax + d)
        elif corner == 1:
            q = (xmin - d, ymax, xmin, ymax + d)
        elif corner == 2:
            q = (xmin - d, ymin - d, xmin, ymin)
        else:
            q = (xmax, ymin - d, xmax + d, ymin)
        return "touching a box by a corner", q
    if c < 0.34:
        x = rng.choice((xmin, xmax, (xmin + xmax) / 2, rng.uniform(allx0, allx1)))
        y = rng.choice((ymin, ymax, (ymin + ymax) / 2, rng.uniform(ally0, ally1)))
        if rng.random() < 0.5:
            return "degenerate query (point)", (x, y, x, y)
        if rng.random() < 0.5:
            return "degenerate query (segment)", (x, ally0 - 1, x, ally1 + 1)
        return "degenerate query (segment)", (allx0 - 1, y, allx1 + 1, y)
    if c < 0.42:
        return "covering all", (allx0 - rng.choice((0, 1)), ally0 - rng.choice((0, 1)), allx1 + rng.choice((0, 1)), ally1 + rng.choice((0, 1)))
    if c < 0.50:
        return "disjoint from all", (allx1 + 1, ally1 + 1, allx1 + 2 + w, ally1 + 2 + h)
    if c < 0.58:
        return "equal to a stored box", (xmin, ymin, xmax, ymax)
    if c < 0.70 and all(isinstance(v, int) for b in boxes for v in b[1]):
        x0, y0 = rng.randint(int(allx0) - 1, int(allx1) + 1), rng.randint(int(ally0) - 1, int(ally1) + 1)
        return "lattice query", (x0, y0, x0 + rng.randint(0, int(w)), y0 + rng.randint(0, int(h)))
    x0, y0 = rng.uniform(allx0 - 0.2 * w, allx1), rng.uniform(ally0 - 0.2 * h, ally1)
    return "random", (x0, y0, x0 + rng.uniform(0, w), y0 + rng.uniform(0, h))


def one_tree(ctx, mon, cls, boxes, queries):
    from plotink import rtree
    try:
        index = rtree.Index(boxes)
    except ConstructionTooLarge:
        ctx.count("skipped:construction exceeded the monitor's node cap (not decided)")
        mon.depth_init = 0
        return
    except RecursionError:
        mon.depth_init = 0
        if cls.startswith("geometric progression"):
            # this collection NEEDS a tree as deep as it is long (150-400 levels); how many levels an
            # implementation can afford before the interpreter's (Python or C) recursion budget runs out is a
            # resource limit that the statement does not fix (the unchanged code gives up near 600 levels) -
            # counted, not judged.  Everywhere else a recursion error means construction does not terminate.
            ctx.count("observed:recursion budget exhausted on a tree that needs hundreds of levels (not decided)")
            return
        ctx.violation("construction does not terminate (recursion limit)", {"fn": "Index", "boxes": boxes})
        return
    except Exception as exc:
        mon.depth_init = 0
        if boxes:
            ctx.violation("exception in construction", {"fn": "Index", "boxes": boxes, "exception": repr(exc)})
        else:
            ctx.count("observed:empty collection raises %s (outside the statement: no boxes)" % type(exc).__name__)
        return
    ctx.count("monitor:constructions completed")
    try:
        shared_ids = len({b[0] for b in boxes}) < len(boxes)
    except TypeError:
        shared_ids = False
    ctx.extra["max_nodes_in_one_tree"] = max(ctx.extra.get("max_nodes_in_one_tree", 0), mon.nodes)
    for qcls, query in queries:
        ctx.case([cls, "query:" + qcls] + (["identifiers shared by several boxes"] if shared_ids else []) + ["n=%s" % ("0" if not boxes else "1" if len(boxes) == 1 else
                                                 "2..5" if len(boxes) <= 5 else "6..60" if len(boxes) <= 60 else ">60")],
                 (tuple(boxes), query), nontrivial=len(boxes) >= 2)
        try:
            got = index.intersection(query)
            if isinstance(got, set) and ctx.rng.random() < 0.5:
                # the caller owns the answer: editing it must not change any later answer
                edit = ctx.rng.randrange(3)
                if edit == 0:
                    got.clear()
                elif edit == 1 and got:
                    got.discard(next(iter(got)))
                else:
                    got.add("not-an-id")
                ctx.case([cls, "history: same query again after the caller edited the returned set"],
                         (tuple(boxes), query, "again", edit), nontrivial=len(boxes) >= 2)
                index.intersection(query)
        except Exception as exc:
            mon.depth_query = 0
            ctx.violation("exception in query", {"fn": "intersection", "boxes": boxes, "query": list(query),
                                                 "exception": repr(exc)})
    if boxes and len(boxes) <= 300 and ctx.rng.random() < 0.2:
        copied_index(ctx, mon, cls, index, boxes, queries)
    mon.registry.pop(id(index), None)


def copied_index(ctx, mon, cls, index, boxes, queries):
    """A copy of an index (copy.copy / copy.deepcopy / pickle round trip) is an index of the same collection:
    whatever it ANSWERS is judged against brute force.  That an index can be copied at all is not part of the
    statement - a copy operation that raises is counted, not judged."""
    import copy
    import pickle
    how = ctx.rng.choice(("copy.copy", "copy.deepcopy", "pickle round trip"))
    try:
        if how == "copy.copy":
            dup = copy.copy(index)
        elif how == "copy.deepcopy":
            dup = copy.deepcopy(index)
        else:
            dup = pickle.loads(pickle.dumps(index, ctx.rng.choice((2, pickle.HIGHEST_PROTOCOL))))
    except Exception as exc:
        mon.depth_init = mon.depth_query = 0
        ctx.count("observed:%s of an index raises %s (copyability is outside the statement)" % (how, type(exc).__name__))
        return
    mon.depth_init = mon.depth_query = 0
    mon.registry[id(dup)] = mon.registry.get(id(index), list(boxes))
    for qcls, query in queries:
        ctx.case([cls, "history: copy of an index queried (%s)" % how, "history: copy of an index queried"],
                 (tuple(boxes), query, how), nontrivial=len(boxes) >= 2)
        try:
            dup.intersection(query)
            index.intersection(query)           # and the original is unaffected by the copy having been made / used
        except Exception as exc:
            mon.depth_query = 0
            ctx.violation("exception in query", {"fn": "intersection", "boxes": boxes, "query": list(query),
                                                 "copy": how, "exception": repr(exc)})
    mon.registry.pop(id(dup), None)


def marathon(ctx, mon, rng):
    """ONE index object queried tens of thousands of times (an occlusion pass asks once per stroke):
    two clusters far apart, so that most queries prune one of them - per-index counters, visit stamps and
    scratch buffers must not change any answer."""
    from plotink import rtree
    boxes = []
    for k in range(6):
        boxes.append(("a%d" % k, (k * 0.5, k * 0.25, k * 0.5 + 1, k * 0.25 + 1)))
        boxes.append(("b%d" % k, (1000 + k * 0.5, 1000 + k, 1001 + k * 0.5, 1000.5 + k)))
    n = ctx.budget(65_540, 65_540)
    before = ctx.violations
    # cluster a is asked for at the very beginning and then left alone for exactly 2^16-2 / 2^16-1 queries
    # (one index each): 16-bit query serials, epoch tags and visit stamps come round again exactly there
    for again_at in (65535, 65536):
        index = rtree.Index(boxes)
        for i in range(n):
            if i == 0 or i >= again_at:
                query = (-1.0, -1.0, 4.0, 4.0)                      # cluster a
            else:
                j = i % 7
                query = (1000.0 + j * 0.3, 1000.0 + j, 1002.0 + j * 0.3, 1001.0 + j)    # cluster b
            index.intersection(query)
            if ctx.violations != before:
                break
        mon.registry.pop(id(index), None)
    ctx.case(["one index, tens of thousands of queries"], ("marathon", n))


def two_live_indexes(ctx, mon, rng):
    """Two indexes alive at once, queried alternately: an answer belongs to the index asked."""
    from plotink import rtree
    cls_a, boxes_a = gen_boxes(rng)
    cls_b, boxes_b = gen_boxes(rng)
    if not boxes_a or not boxes_b or len(boxes_a) > 80 or len(boxes_b) > 80:
        return
    try:
        ia, ib = rtree.Index(boxes_a), rtree.Index(boxes_b)
    except Exception:
        mon.depth_init = 0
        return      # construction problems are reported by the single-index workload
    for k in range(6):
        index, boxes = (ia, boxes_a) if k % 2 == 0 else (ib, boxes_b)
        # a query derived from the OTHER collection half of the time (shared / related arguments)
        qcls, query = gen_query(rng, boxes_b if (k % 2 == 0 and rng.random() < 0.5) else boxes)
        ctx.case(["history: two live indexes queried alternately", "query:" + qcls], (tuple(boxes), query, "two", k),
                 nontrivial=len(boxes) >= 2)
        try:
            index.intersection(query)
        except Exception as exc:
            mon.depth_query = 0
            ctx.violation("exception in query", {"fn": "intersection", "boxes": boxes, "query": list(query),
                                                 "exception": repr(exc)})
    mon.registry.pop(id(ia), None)
    mon.registry.pop(id(ib), None)


def run(ctx):
    from .. import wtests
    wtests.run(ctx)
    import sys
    mon = install(ctx)
    rng = ctx.rng
    # the contract wrappers add about three interpreter frames per tree level; the deepest trees
    # generated here (400 levels) fit the interpreter's default budget of 1000 frames on their own
    # but not with the wrappers in between, so the budget is widened by that factor for this process
    sys.setrecursionlimit(max(sys.getrecursionlimit(), 6000))
    marathon(ctx, mon, rng)
    ctx.need("one index, tens of thousands of queries", 1)
    for _ in range(ctx.budget(1_500, 20_000)):
        two_live_indexes(ctx, mon, rng)
    ctx.need("history: two live indexes queried alternately", 3000)
    ctx.need("history: same query again after the caller edited the returned set", 3000)
    ctx.need("history: copy of an index queried", 500)
    n = ctx.budget(9_000, 150_000)
    for i in range(n):
        if not ctx.alive():
            break
        if rng.random() < 0.03:
            from .. import noise
            noise.burst(ctx, rng, exclude=('rtree',))
        if rng.random() < 0.01:
            from plotink import rtree as _rt
            for bad in (None, [(1, (0, 0))], [(1, None)], 5, [("a", (0, 0, "x", 1))]):
                try:
                    _rt.Index(bad).intersection((0, 0, 1, 1))
                except Exception:
                    pass
                mon.depth_init = mon.depth_query = 0
            ctx.tag("history: after failed constructions / queries (malformed arguments)")
        cls, boxes = gen_boxes(rng)
        queries = [gen_query(rng, boxes) for _ in range(5)]
        if i < 40 or len(boxes) <= 6:
            ctx.sample({"boxes": boxes[:8], "n_boxes": len(boxes), "query": queries[0]}, tag=cls, per_tag=1)
        one_tree(ctx, mon, cls, boxes, queries)
    ctx.extra["max_nodes_in_one_tree"] = [ctx.extra.get("max_nodes_in_one_tree", 0)]
    for cls in ("coordinates given as Fraction / Decimal", "query:exact type: touching by an edge",
                "extreme magnitudes (sums overflow)", "query:extreme query",
                "geometric progression (tree hundreds of levels deep)", "integer lattice", "strokes (zero-width / zero-height)", "points", "duplicates", "nested",
                "shared edges (tiling)", "collinear strokes", "continuous",
                "query:touching a box by an edge", "query:touching a box by a corner",
                "query:degenerate query (point)", "query:degenerate query (segment)",
                "query:covering all", "query:disjoint from all", "query:equal to a stored box",
                "query:lattice query", "query:random", "n=1", "n=2..5", "n=6..60", "n=>60"):
        ctx.need(cls, 100)
    ctx.need("identifiers shared by several boxes", 1_000)
    ctx.need("monitor:intersection evaluated (top level)", 20_000)
    ctx.need("monitor:constructions completed", 4_000)
    ctx.need("history: after calls to other library functions", 150)
    contracts.uninstall_all()


def replay(ctx, rec):
    import sys
    sys.setrecursionlimit(max(sys.getrecursionlimit(), 6000))
    mon = install(ctx)
    w = rec["witness"]
    boxes = [(b[0], tuple(b[1])) for b in w["boxes"]]
    ctx.case(["replay"], None)
    queries = [("replay", tuple(w["query"]))] if "query" in w else []
    one_tree(ctx, mon, "replay", boxes, queries)
    contracts.uninstall_all()
