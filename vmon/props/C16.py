"""C16 - board-state round trips through the EBB3 layer are faithful.

Monitor: the real EBBMotionWrap (monitored subclass) talks through the fake port to the
Ebb3Board simulator, which implements the documented SL/QL, ST/QT and EM/QE semantics
(vmon/serialsim.py).  After every step an assertion hook compares (a) the simulator's state
with a reference model kept by the harness (32-byte array, nickname, motor enables + global
microstep mode) and (b) the value returned by the read-back method with that model."""
import json

from .. import ebb3mon

LEVEL = "exploration"
THOROUGH_SHARDS = 16
RULE = ("int32: edge values (0, +-1, +-2^31 edges, every byte boundary +-1, single-byte patterns) and random int32 x "
        "every slot 0..28, written with var_write_int32 and read back; random interleavings of 4-byte and 1-byte "
        "writes/reads at overlapping slots against a 32-byte model; nicknames (3..16 chars, inner blanks, padding) "
        "written and read back; motors: ALL 20 prior board states (en1, en2, mode 1..5) x ALL requests (r1, r2) in "
        "{-2..8}^2 (2420 histories, enumerated completely in every run) plus random request sequences. One "
        "evaluation = one step with an assertion; distinct by (prior state, operation, arguments); non-trivial "
        "when the operation changes or reads board state")
ASSUMPTIONS = ["board model: EM first argument non-zero enables motor 1 and sets the global step mode, zero disables "
               "motor 1 and leaves the mode; second argument only switches motor 2; QE reports 0 or the global "
               "microstep factor (16,8,4,2,1) per motor; QL/SL address 32 byte slots; QT returns the stored "
               "nickname padded with blanks to 16 characters",
               "when both requested resolutions clamp to 0 the resulting global mode is unspecified by the statement "
               "and is not checked"]

EDGES = [0, 1, -1, 2, -2, 127, 128, 255, 256, -255, -256, -257, 32767, 32768, 65535, 65536, -65536, -65537,
         2 ** 24 - 1, 2 ** 24, -2 ** 24, 2 ** 31 - 1, 2 ** 31 - 2, -2 ** 31, -2 ** 31 + 1, 0x01020304, -0x01020304,
         0x7F000000, 0x00FF0000, 0x0000FF00, 0x000000FF, -0x01000000, 0x00800000, 0x00008000, 0x00000080]


def classify(rec):
    return None


def clamp(v):
    return min(max(int(v), 0), 5)


class Model:
    def __init__(self, board_kwargs):
        self.ram = [0] * 32
        self.nick = board_kwargs.get("nickname", "")
        self.mode = board_kwargs.get("mode", 1)
        self.en1 = board_kwargs.get("en1", False)
        self.en2 = board_kwargs.get("en2", False)
        self.mode_known = True


def run_case(ctx, classes, scen):
    model = Model(scen["board"])
    problems = []

    def bad(i, step, kind, **kw):
        problems.append(dict(kind=kind, step=i, method=step["m"], args=step.get("a"), **kw))

    def hook(world, i, step, top):
        board, name, args = world.board, step["m"], step.get("a", [])
        if top is None or "raised" in top:
            bad(i, step, "read-back method raised", exception=repr(top and top.get("raised")))
            return
        res = top["result"]
        if world.obj.err is not None:
            bad(i, step, "conforming board interaction ended in an error", err=world.obj.err)
            return
        ctx.case(classes + ["op:" + name], (json.dumps(scen["board"], sort_keys=True), name, json.dumps(args, default=repr), i))
        ctx.count("monitor:board state compared with the model")
        if name == "var_write_int32":
            v, s = args
            model.ram[s:s + 4] = list((v % 2 ** 32).to_bytes(4, "big"))
            if res is not True:
                bad(i, step, "write reported failure", returned=repr(res))
        elif name == "var_write":
            model.ram[args[1]] = args[0]
        elif name == "var_read_int32":
            s = args[0]
            want = int.from_bytes(bytes(model.ram[s:s + 4]), "big", signed=True)
            if res != want or type(res) is not int:
                bad(i, step, "int32 read back differs from what was written", returned=repr(res), expected=want,
                    slots=model.ram[s:s + 4])
        elif name == "var_read":
            if res != model.ram[args[0]] or type(res) is not int:
                bad(i, step, "byte read back differs from what was written", returned=repr(res),
                    expected=model.ram[args[0]])
        elif name == "write_nickname":
            model.nick = args[0].strip()
            if res is not True:
                bad(i, step, "write reported failure", returned=repr(res))
            if world.obj.name != model.nick:
                bad(i, step, "object's name differs from the trimmed nickname", name=world.obj.name, expected=model.nick)
        elif name == "query_nickname":
            # a board without a nickname: the statement does not say how "no name" is represented on the
            # object (None as after construction, or the empty string) - both are accepted
            if world.obj.name != model.nick.strip() and not (model.nick.strip() == "" and not world.obj.name):
                bad(i, step, "nickname read back differs from the trimmed written one", name=world.obj.name,
                    expected=model.nick.strip())
        elif name == "motors_enable":
            margs = step.get("model_args", args)
            c1, c2 = clamp(margs[0]), clamp(margs[1])
            model.en1, model.en2 = c1 != 0, c2 != 0
            if c1 != 0:
                model.mode, model.mode_known = c1, True
            elif c2 != 0:
                model.mode, model.mode_known = c2, True
            else:
                model.mode_known = False        # unspecified by the statement
            if board.en1 != model.en1 or board.en2 != model.en2:
                bad(i, step, "motor enable state on the board differs from the request",
                    board=[board.en1, board.en2], expected=[model.en1, model.en2])
            if model.mode_known and board.mode != model.mode:
                bad(i, step, "global microstep mode differs from the requested resolution",
                    board_mode=board.mode, expected=model.mode)
            if not model.mode_known:
                model.mode, model.mode_known = board.mode, True
        elif name == "motors_disable":
            model.en1 = model.en2 = False
            if board.en1 or board.en2:
                bad(i, step, "motors still enabled on the board", board=[board.en1, board.en2])
        elif name == "motors_query_enabled":
            want = (model.mode if model.en1 else 0, model.mode if model.en2 else 0)
            if res != want:
                bad(i, step, "reported motor state differs from the board", returned=repr(res), expected=want)
        # the board's memory / nickname always equal the model
        if board.ram != model.ram:
            bad(i, step, "board memory differs from the model", board=list(board.ram), model=list(model.ram))
        if any(not (0 <= b <= 255) for b in board.ram):
            bad(i, step, "slot outside 0..255", board=list(board.ram))
        if board.nickname.strip() != model.nick.strip():
            bad(i, step, "board nickname differs from the model", board=board.nickname, model=model.nick)

    findings, world, tops = ebb3mon.run_scenario(scen, hook=hook)
    for f in findings:
        if f["prop"] in ("C04", "C05"):
            ctx.count("observed:finding of another property (%s)" % f["prop"])
        elif f["prop"] == "harness":
            ctx.oracle_fault("harness: " + f["kind"], f)
    if world.board.unknown:
        problems.append({"kind": "request the documented board does not know", "requests": world.board.unknown[:3]})
    for p in problems[:3]:
        ctx.violation(p["kind"], {"scenario": scen, "finding": p, "log_tail": world.log.dump(30)})
    return problems


def int32_cases(ctx, rng, n_random):
    values = list(EDGES) + [rng.randint(-2 ** 31, 2 ** 31 - 1) for _ in range(n_random)]
    for v in values:
        slots = range(29) if v in EDGES[:12] or ctx.tier != "quick" else rng.sample(range(29), 4)
        for s in slots:
            scen = {"board": {"version": "3.0.2", "pad": rng.random() < 0.2}, "setup": "attach",
                    "steps": [{"m": "var_write_int32", "a": [v, s]}, {"m": "var_read_int32", "a": [s]}]}
            ctx.sample(scen, tag="int32 round trip", per_tag=1)
            run_case(ctx, ["int32 round trip", "int32:negative" if v < 0 else "int32:non-negative",
                           "slot:%d" % s], scen)


def overlapping(ctx, rng):
    steps = []
    for _ in range(rng.randint(4, 30)):
        c = rng.random()
        if c < 0.35:
            steps.append({"m": "var_write_int32", "a": [rng.choice(EDGES + [rng.randint(-2 ** 31, 2 ** 31 - 1)] * 3),
                                                       rng.choice([0, 1, 2, 3, 4, 5, 26, 27, 28, rng.randrange(29)])]})
        elif c < 0.6:
            steps.append({"m": "var_read_int32", "a": [rng.choice([0, 1, 2, 3, 4, 5, 26, 27, 28, rng.randrange(29)])]})
        elif c < 0.8:
            steps.append({"m": "var_write", "a": [rng.randrange(256), rng.choice([0, 1, 2, 3, 4, 5, 6, 7, 28, 29, 30, 31])]})
        else:
            steps.append({"m": "var_read", "a": [rng.randrange(32)]})
    scen = {"board": {"version": "3.0.2"}, "setup": rng.choice(["attach", "connect"]), "steps": steps}
    run_case(ctx, ["overlapping writes history"], scen)


NAMES = ["MyQT,1", "QT,QT,x", "aST,b", "QT,", "x,QT,y,QT,", "Ada", "AxiDraw 7", "  padded  ", "x" * 16, "north-east", "a b c", "Zed ", " Q9", "sixteen chars ok!", "UPPER lower",
         "tab\tin", "n3w"]


def nickname(ctx, rng):
    steps = [{"m": "query_nickname", "a": []}] if rng.random() < 0.5 else []
    initial = rng.choice(["", "Old name", "  lead", " both ", "trail   ", "AxiDraw", "axidraw 7"])
    prev = initial
    near = False
    for _ in range(rng.randint(1, 4)):
        nm = rng.choice(NAMES)[:16]
        if rng.random() < 0.3:
            nm = "".join(rng.choice("abcXYZ 019-_") for _ in range(rng.randint(3, 16)))
        if prev.strip() and rng.random() < 0.45:
            # a name that differs from the one the board holds by very little: only letter case, only
            # padding, one character more or less, or not at all - it is still a write, and what the
            # board holds afterwards is THIS text (trimmed)
            base = prev.strip()
            k = rng.randrange(7)
            nm = (base.swapcase(), base.lower(), base.upper(), " " + base, base + " ", base[:-1] or "x",
                  base)[k][:16]
            if k <= 2 and nm == base:
                nm = (base + "a")[:16].swapcase()
            near = True
        steps.append({"m": "write_nickname", "a": [nm]})
        prev = nm
        if rng.random() < 0.8:
            steps.append({"m": "query_nickname", "a": []})
    steps.append({"m": "query_nickname", "a": []})
    scen = {"board": {"version": "3.0.2", "nickname": initial},
            "setup": rng.choice(["attach", "connect"]), "steps": steps}
    ctx.sample(scen, tag="nickname", per_tag=1)
    run_case(ctx, ["nickname round trip"] + (["nickname: rewritten with a near-identical name (case / padding / "
                                              "one character)"] if near else []), scen)


def motors_exhaustive(ctx):
    n = 0
    for en1 in (False, True):
        for en2 in (False, True):
            for mode in (1, 2, 3, 4, 5):
                for r1 in range(-2, 9):
                    for r2 in range(-2, 9):
                        scen = {"board": {"version": "3.0.2", "en1": en1, "en2": en2, "mode": mode}, "setup": "attach",
                                "steps": [{"m": "motors_enable", "a": [r1, r2]}, {"m": "motors_query_enabled", "a": []}]}
                        c1, c2 = clamp(r1), clamp(r2)
                        cls = ("motors: only motor 2 requested" if c1 == 0 and c2 != 0 else
                               "motors: only motor 1 requested" if c2 == 0 and c1 != 0 else
                               "motors: both requested" if c1 and c2 else "motors: none requested")
                        if n % 400 == 0:
                            ctx.sample(scen, tag=cls, per_tag=1)
                        run_case(ctx, ["motors exhaustive", cls,
                                       "clamped" if (r1 != c1 or r2 != c2) else "in range"], scen)
                        n += 1
    ctx.extra["motor_histories_enumerated"] = n
    return n


def shape_of(rng, r):
    """The same request value in another shape int() accepts (clamp(int(x)) is what counts)."""
    import enum
    c = rng.randrange(6)
    if c == 0 and r in (0, 1):
        return bool(r)
    if c == 1:
        return float(r)
    if c == 2 and 0 <= r <= 5:
        return enum.IntEnum("Res", {"R%d" % k: k for k in range(6)})(r)
    if c == 3:
        return str(r)
    if c == 4:
        return type("MyInt", (int,), {})(r)
    return r


def motors_shapes(ctx, rng):
    steps, plain = [], []
    for _ in range(rng.randint(1, 4)):
        r1, r2 = rng.randint(-1, 6), rng.randint(-1, 6)
        steps.append({"m": "motors_enable", "a": [shape_of(rng, r1), shape_of(rng, r2)], "model_args": [r1, r2]})
        steps.append({"m": "motors_query_enabled", "a": []})
    scen = {"board": {"version": "3.0.2", "en1": rng.random() < 0.5, "en2": rng.random() < 0.5, "mode": rng.randint(1, 5)},
            "setup": "attach", "steps": steps}
    del plain
    run_case(ctx, ["motors: resolutions given as bool / float / IntEnum / str / int subclass"], scen)


def motors_random(ctx, rng):
    steps = []
    for _ in range(rng.randint(2, 12)):
        c = rng.random()
        if c < 0.6:
            steps.append({"m": "motors_enable", "a": [rng.randint(-2, 8), rng.randint(-2, 8)]})
        elif c < 0.75:
            steps.append({"m": "motors_disable", "a": []})
        else:
            steps.append({"m": "motors_query_enabled", "a": []})
    steps.append({"m": "motors_query_enabled", "a": []})
    # boards with newer firmware implement the same documented EM / QE / CU behaviour: the round trip is the
    # same for every supported version, however the object learnt it (connect() handshake or attached port)
    version = rng.choice(["3.0.2", "3.0.2", "3.0.3", "3.1.0", "3.2.1", "4.0.0", "10.0.3"])
    setup = rng.choice(["attach", "connect", "connect"])
    scen = {"board": {"version": version, "en1": rng.random() < 0.5, "en2": rng.random() < 0.5, "mode": rng.randint(1, 5)},
            "setup": setup, "steps": steps}
    run_case(ctx, ["motors random sequence", "board firmware %s" % ("3.0.x" if version.startswith("3.0") else "3.1 or newer"),
                   "version learnt through %s" % setup], scen)


def marathon(ctx, rng):
    """ONE object, 22000 write / read-back / nickname / motor round trips (66000+ requests)."""
    world = ebb3mon.World(board_kwargs={"version": "3.0.2"})
    world.attach()
    n = ctx.budget(22_000, 50_000)
    for i in range(n):
        value = (i * 2654435761) % 2 ** 32 - 2 ** 31
        slot = i % 26
        t1, _ = ebb3mon.call_step(world, {"m": "var_write_int32", "a": [value, slot]})
        t2, _ = ebb3mon.call_step(world, {"m": "var_read_int32", "a": [slot]})
        got = None if t2 is None else t2.get("result")
        stored = int.from_bytes(bytes(world.board.ram[slot:slot + 4]), "big", signed=True)
        if t1 is None or t2 is None or "raised" in t1 or "raised" in t2 or got != value or stored != value \
                or world.obj.__dict__.get("err") is not None:
            ctx.violation("int32 round trip failed on a long-lived object", {
                "round_trip_number": i + 1, "value": value, "slot": slot, "read_back": repr(got), "stored": stored,
                "err": world.obj.__dict__.get("err"),
                "raised": repr((t1 or {}).get("raised") or (t2 or {}).get("raised"))})
            break
        if i % 3000 == 2999:
            world.log.events.clear()
            world.mon.done = []
    ctx.case(["one object, tens of thousands of round trips"], ("marathon", n))


def run(ctx):
    rng = ctx.rng
    marathon(ctx, rng)
    ctx.need("one object, tens of thousands of round trips", 1)
    if ctx.shard == 0:
        n = motors_exhaustive(ctx)
        ctx.need("motors exhaustive", 2 * n)
        for cls in ("motors: only motor 2 requested", "motors: only motor 1 requested", "motors: both requested",
                    "motors: none requested", "clamped"):
            ctx.need(cls, 100)
    int32_cases(ctx, rng, ctx.budget(300, 3000))
    for _ in range(ctx.budget(1500, 20000)):
        if not ctx.alive():
            break
        if rng.random() < 0.03:
            from .. import noise
            noise.burst(ctx, rng, exclude=('versions', 'discovery'))
        overlapping(ctx, rng)
    for _ in range(ctx.budget(800, 10000)):
        if rng.random() < 0.03:
            from .. import noise
            noise.burst(ctx, rng, exclude=('versions', 'discovery'))
        nickname(ctx, rng)
    for _ in range(ctx.budget(1500, 20000)):
        if rng.random() < 0.03:
            from .. import noise
            noise.burst(ctx, rng, exclude=('versions', 'discovery'))
        motors_random(ctx, rng)
    for _ in range(ctx.budget(1500, 20000)):
        motors_shapes(ctx, rng)
    ctx.need("motors: resolutions given as bool / float / IntEnum / str / int subclass", 1500)
    ctx.need("int32 round trip", 2000)
    ctx.need("history: after calls to other library functions", 60)
    ctx.need("int32:negative", 500)
    ctx.need("overlapping writes history", 5000)
    ctx.need("nickname round trip", 1000)
    ctx.need("nickname: rewritten with a near-identical name (case / padding / one character)", 300)
    ctx.need("motors random sequence", 3000)
    ctx.need("board firmware 3.1 or newer", 500)
    ctx.need("version learnt through connect", 500)
    ctx.need("monitor:board state compared with the model", 20000)
    for s in range(29):
        ctx.need("slot:%d" % s, 10)


def replay(ctx, rec):
    run_case(ctx, ["replay"], rec["witness"]["scenario"])
