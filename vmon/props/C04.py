"""C04 - the EBB3 connection object latches its first error and then transmits nothing.

Deciding monitors (on the REAL EBBMotionWrap, through a run-time subclass):
  * online latch monitor: every assignment to `err` (old, new) - a recorded message must never
    be replaced; every write() reaching the fake port while an error is recorded and the
    client-boundary call is not connect() is a violation at the moment it happens;
  * per depth-0 call that starts latched (err set) or not connected (port None): no write
    event inside the call, the return value is the method's failure value, err unchanged,
    nothing raised (vmon/ebb3mon.py:check_step).
Workloads: (a) systematic latch causes (method x fatal fault kind x I/O position), each followed
by ALL 32 request methods plus a direct second record_error(); (b) latching by failed connects
(old firmware, silent, non-EBB, unopenable port), never-connected and disconnected objects;
(c) random histories with disconnect / connect / reboot interleaved and 0..3 faults."""
import json

from .. import ebb3mon

LEVEL = "fault_enumeration"
THOROUGH_SHARDS = 16
RULE = ("(a) for each of the 32 request methods, each fatal fault kind (4 exception types, silence, 26 empty reads, "
        "3 error lines, 6 wrong-name lines) at each write/read index of the fault-free call => latched object, then "
        "every one of the 32 request methods (random valid arguments, random order) and record_error('later') is "
        "called on it; (b) the same followers after each kind of failed connect, on a never-connected object, after "
        "disconnect() and after reboot()/bootload(); (c) random histories of 5..60 calls. One evaluation = one "
        "depth-0 call on a latched or unconnected object; distinct by (state, cause, method, arguments); "
        "non-trivial when the method would do I/O on a clean object (all 32 do)")
ASSUMPTIONS = ["failure values: the documented one per method (False for command-like methods that return a flag, None "
               "for queries, (None, None) for query_current, None for methods that return nothing)",
               "connect() and disconnect() are exempt, as the statement says; a connect() on a latched object performs "
               "the handshake and leaves the recorded error in place"]

FOLLOWERS = sorted(ebb3mon.REQUESTS)


def classify(rec):
    return None


def state_of(world):
    obj = world.obj
    port, err = obj.__dict__.get("port"), obj.__dict__.get("err")
    if port is None:
        return "unconnected+error" if err is not None else "unconnected"
    return "latched" if err is not None else "clean"


def follower_steps(rng, names=None):
    names = list(names or FOLLOWERS)
    rng.shuffle(names)
    steps = [{"m": n, "a": ebb3mon.gen_args(rng, n, reset_ok=True)} for n in names]
    steps.insert(rng.randrange(len(steps) + 1), {"m": "record_error", "a": ["a later error %d" % rng.randrange(1000)]})
    return steps


def run_case(ctx, classes, scen, cause=None, prefix=0):
    """Run one scenario; steps [prefix:] are the ones expected to run blocked."""
    transitions = ctx.extra.setdefault("_transitions", set())
    pairs = ctx.extra.setdefault("_pairs", set())
    state_before = {}
    extra = []

    def hook(world, i, step, top):
        st = state_of(world)
        prev = state_before.get("s", "start")
        transitions.add("%s -> %s (%s)" % (prev, st, step["m"] if step["m"] in ebb3mon.NOT_REQUESTS else "request"))
        state_before["s"] = st
        # "Only connecting and disconnecting remain possible": they must still work on a blocked object
        if top is not None and "raised" not in top and step["m"] == "disconnect":
            ctx.count("monitor:disconnect() calls checked")
            closes = [e for e in world.log.events[top["start"]:top["end"]] if e["kind"] == "close"]
            if world.obj.__dict__.get("port") is not None or (not top["port_none"] and not closes):
                extra.append({"prop": "C04", "step": i, "kind": "disconnect() did not close and drop the port",
                              "method": "disconnect", "closed": len(closes)})
        if top is not None and step["m"] == "connect" and top["port_none"] and top["err_at_entry"] is not None \
                and not step.get("faults") and not step.get("open_fault") and not step.get("reply") \
                and step.get("ports") is None and not world.board.rebooted and not world.board.bootloader:
            ctx.count("monitor:connect() on a latched, unconnected object checked")
            probes = [e for e in world.log.events[top["start"]:top["end"]] if e["kind"] == "write" and e["data"] == b"v\r"]
            supported = world.board.product.startswith("EBB") and \
                tuple(int(x) for x in world.board.version.split(".")) >= \
                tuple(int(x) for x in type(world.obj).MIN_VERSION_STRING.split("."))
            if "raised" in top or not probes or (supported and world.obj.__dict__.get("port") is None):
                extra.append({"prop": "C04", "step": i, "kind": "connect() no longer possible on a latched object",
                              "method": "connect", "probes": len(probes), "raised": repr(top.get("raised"))})
        if top is not None and step["m"] in ebb3mon.REQUESTS and (top["port_none"] or top["err_at_entry"] is not None):
            blocked_state = ("unconnected" if top["port_none"] else "latched")
            pairs.add(blocked_state + "|" + step["m"])
            ctx.case(classes + ["state:" + blocked_state, "follower:" + step["m"]],
                     (cause, blocked_state, step["m"], json.dumps(step.get("a"), default=repr)))
            ctx.count("monitor:blocked depth-0 calls checked")

    findings, world, tops = ebb3mon.run_scenario(scen, hook=hook)
    findings = findings + extra
    ctx.count("events:total", len(world.log.events))
    ctx.count("events:err assignments observed", sum(1 for e in world.log.events if e["kind"] == "err_assign"))
    ctx.count("events:writes observed", sum(1 for e in world.log.events if e["kind"] == "write"))
    n_blocked_writes = 0
    for f in findings:
        if f["prop"] == "harness":
            if not scen.get("expect_setup_failure"):
                ctx.oracle_fault("harness: " + f["kind"], {"scenario": scen, "finding": f})
        elif f["prop"] == "C04":
            ctx.count("finding:%s|%s" % (f["kind"], f.get("method")))
            if "written" in f["kind"]:
                n_blocked_writes += 1
            ctx.violation(f["kind"], {"scenario": scen, "finding": f, "log_tail": world.log.dump(40)})
        else:
            ctx.count("observed:finding of another property (%s)" % f["prop"])
    ctx.count("monitor:bytes written while blocked (must stay 0)", n_blocked_writes)
    return findings, world, tops


def systematic(ctx, rng, methods, all_kinds):
    causes = ctx.extra.setdefault("_causes", set())
    for name in methods:
        if not ctx.alive():
            return
        args = ebb3mon.gen_args(rng, name)
        if name == "motors_enable" and rng.random() < 0.7:
            args = [0, rng.randint(1, 5)]
        board = {"version": "3.0.2", "nickname": rng.choice(["", "Ada"])}
        step = {"m": name, "a": args}
        n_w, n_r = ebb3mon.dry_io_counts(board, "attach", [], step)
        positions = [("write", i) for i in range(n_w)] + [("read", i) for i in range(n_r)]
        for op, at in positions:
            for fault in ebb3mon.fatal_faults_at(op, at, all_kinds=all_kinds):
                label = ebb3mon.fault_label(fault)
                cause = "%s|%s|%d" % (name, label, at)
                scen = {"board": board, "setup": "attach",
                        "steps": [dict(step, faults=[fault])] + follower_steps(rng) +
                        [{"m": "disconnect", "a": []}, faulty_connect(rng)] + follower_steps(rng, rng.sample(FOLLOWERS, 4))}
                _f, world, tops = run_case(ctx, ["systematic latch cause", "cause-fault:" + label], scen, cause=cause, prefix=1)
                if world.obj.err is None and world.obj.port is not None:
                    # the fault did not latch (e.g. reboot ignores write faults): followers ran clean
                    ctx.count("observed:fault did not latch (%s)" % name)
                else:
                    causes.add(cause)


def faulty_connect(rng):
    """A connect() step that fails in one of the ways a re-connect can fail."""
    c = rng.randrange(7)
    step = {"m": "connect", "a": []}
    if c == 0:
        step["open_fault"] = rng.choice(["SerialException", "SerialTimeoutException"])
    elif c == 1:
        step["faults"] = [{"op": rng.choice(["read", "write"]), "at": 0, "kind": "raise",
                           "exc": rng.choice(["SerialException", "SerialTimeoutException", "PortNotOpenError"])}]
    elif c == 2:
        step["faults"] = [{"op": "read", "at": 0, "kind": "silence"}]
    elif c == 3:
        step["reply"] = {"0": "Arduino Uno\r\n", "1": "Arduino Uno\r\n"}
    elif c == 4:
        step["reply"] = {"0": "\xff\xfe\r\n", "1": "\xff\xfe\r\n"}
    elif c == 5:
        step["ports"] = []
    else:
        step["reply"] = {"0": "EBBv13_and_above EB Firmware Version 2.8.1\r\n"}
    return step


def special_states(ctx, rng):
    """Failed connects, never connected, disconnected, rebooted."""
    kinds = [
        ("never connected", {"setup": "none", "board": {}}, []),
        ("disconnected after connect", {"setup": "connect", "board": {"version": "3.0.2"}}, [{"m": "disconnect", "a": []}]),
        ("after reboot()", {"setup": "connect", "board": {"version": "3.0.3"}}, [{"m": "reboot", "a": []}]),
        ("after bootload()", {"setup": "attach", "board": {"version": "3.0.3"}}, [{"m": "bootload", "a": []}]),
        ("connect: old firmware", {"setup": "none", "board": {"version": rng.choice(["2.8.1", "3.0.1", "2.10.0", "3.0.0"])}},
         [{"m": "connect", "a": []}]),
        ("connect: silent device", {"setup": "none", "board": {"version": "3.0.2"}},
         [{"m": "connect", "a": [], "faults": [{"op": "read", "at": 0, "kind": "silence"}]}]),
        ("connect: non-EBB device", {"setup": "none", "board": {"version": "1.0", "product": "Arduino Uno rev "}},
         [{"m": "connect", "a": []}]),
        ("connect: port cannot be opened", {"setup": "none", "board": {}},
         [{"m": "connect", "a": [], "open_fault": "SerialException"}]),
        ("connect: exception at first read", {"setup": "none", "board": {}},
         [{"m": "connect", "a": [], "faults": [{"op": "read", "at": 0, "kind": "raise", "exc": "SerialException"}]}]),
        ("connect: no such board", {"setup": "none", "board": {}}, [{"m": "connect", "a": [], "ports": []}]),
        ("connect: named board absent", {"setup": "none", "board": {}}, [{"m": "connect", "a": ["Nobody"], "ports": []}]),
    ]
    for label, base, prefix in kinds:
        scen = dict(base, steps=prefix + follower_steps(rng), expect_setup_failure=True)
        _f, world, _t = run_case(ctx, ["special state", "special:" + label], scen, cause=label, prefix=len(prefix))
        if state_of(world) == "clean":
            ctx.oracle_fault("special state did not block the object", {"label": label})
        # latched object: connect() and disconnect() remain possible
        scen2 = dict(base, steps=prefix + [{"m": "connect", "a": []}] + follower_steps(rng, FOLLOWERS[:8]) +
                     [{"m": "disconnect", "a": []}] + follower_steps(rng, FOLLOWERS[8:16]), expect_setup_failure=True)
        run_case(ctx, ["special state + reconnect", "special:" + label], scen2, cause=label + "+reconnect")
        # ... and a re-connect that itself fails must not replace the first message either
        scen3 = dict(base, steps=prefix + [{"m": "disconnect", "a": []}, faulty_connect(rng)] +
                     follower_steps(rng, FOLLOWERS[16:24]) + [faulty_connect(rng)] + follower_steps(rng, FOLLOWERS[24:]),
                     expect_setup_failure=True)
        run_case(ctx, ["special state + failing reconnect", "special:" + label], scen3, cause=label + "+failing reconnect")


def many_later_errors(ctx, rng):
    """One latched object, then 20..40 failing connect() calls that each try to record ANOTHER message
    (different names that cannot be found, unopenable ports, silent devices): the first message stays."""
    prefix = [{"m": "command", "a": ["SM,100,20,20"], "faults": [{"op": "read", "at": 0, "kind": "silence"}]},
              {"m": "disconnect", "a": []}]
    steps = list(prefix)
    for i in range(rng.randint(20, 40)):
        c = rng.randrange(4)
        if c == 0:
            steps.append({"m": "connect", "a": ["Plotter-%02d" % i], "ports": []})
        elif c == 1:
            steps.append({"m": "connect", "a": ["Nobody %d" % i],
                          "ports": [("/dev/fake0", "EiBotBoard,Ada", "USB VID:PID=04D8:FD92 SER=Ada LOCATION=1")]})
        elif c == 2:
            steps.append({"m": "record_error", "a": ["direct message %d" % i]})
        else:
            steps.append({"m": "connect", "a": [], "ports": [("/dev/port%d" % i, "EiBotBoard", "USB VID:PID=04D8:FD92")],
                          "open_fault": "SerialException"})
        if rng.random() < 0.2:
            steps += follower_steps(rng, rng.sample(FOLLOWERS, 2))
    scen = {"board": {"version": "3.0.2"}, "setup": "attach", "steps": steps, "expect_setup_failure": True}
    run_case(ctx, ["many different later errors on one latched object"], scen, cause="many later errors")


def two_objects(ctx, rng):
    """Two connection objects alive at once: latching one must not silence or latch the other, and
    traffic on the healthy one must not revive the latched one (no state shared through the class)."""
    wa = ebb3mon.World(board_kwargs={"version": "3.0.2", "nickname": "A"})
    wb = ebb3mon.World(board_kwargs={"version": "3.0.3", "nickname": "B"})
    wa.attach()
    wb.attach()
    name = rng.choice(FOLLOWERS)
    fault = rng.choice(ebb3mon.fatal_faults_at(rng.choice(["read", "write"]), 0))
    top, fr = ebb3mon.call_step(wa, {"m": name, "a": ebb3mon.gen_args(rng, name), "faults": [fault]})
    latched_a = wa.obj.err is not None or wa.obj.port is None
    scen = {"two_objects": True, "latch": {"m": name, "fault": fault}}
    findings = []
    for i in range(rng.randint(4, 12)):
        w, label = (wa, "A") if rng.random() < 0.5 else (wb, "B")
        m = rng.choice([f for f in FOLLOWERS if f not in ("reboot", "bootload")])
        step = {"m": m, "a": ebb3mon.gen_args(rng, m)}
        err_b_before = wb.obj.err
        top, first_req = ebb3mon.call_step(w, step)
        for f in ebb3mon.check_step(w, step, top, i, first_req):
            findings.append(dict(f, object=label))
        ctx.count("monitor:blocked depth-0 calls checked" if (label == "A" and latched_a) else "monitor:calls on the healthy twin checked")
        if label == "A" and latched_a:
            ctx.case(["two objects alive", "state:latched", "follower:" + m], ("two", name, m, i))
        if wb.obj.err is not None and err_b_before is None:
            findings.append({"prop": "C04", "kind": "the healthy object recorded an error although only its twin was faulted",
                             "object": "B", "method": m, "err": wb.obj.err})
    for f in findings:
        if f["prop"] in ("C04", "C05"):
            ctx.violation(f["kind"] if f["prop"] == "C04" else "two objects: " + f["kind"],
                          {"scenario": scen, "finding": f, "log_tail": (wa if f.get("object") == "A" else wb).log.dump(30)})


def history(ctx, rng):
    names = FOLLOWERS
    steps = []
    n_faults = rng.randint(0, 3)
    n = rng.randint(5, 60)
    fault_at = set(rng.sample(range(n), min(n, n_faults)))
    for i in range(n):
        c = rng.random()
        if c < 0.06:
            step = {"m": "disconnect", "a": []}
            if rng.random() < 0.3:
                step["faults"] = [{"op": "close", "at": 0, "kind": "raise",
                                   "exc": rng.choice(["SerialException", "PortNotOpenError"])}]
            steps.append(step)
        elif c < 0.11:
            steps.append({"m": "connect", "a": []})
        elif c < 0.14:
            steps.append(faulty_connect(rng))
        elif c < 0.17:
            steps.append({"m": "record_error", "a": ["history error %d" % i]})
        else:
            name = rng.choice(names)
            step = {"m": name, "a": ebb3mon.gen_args(rng, name)}
            if i in fault_at:
                op = "read" if rng.random() < 0.8 else "write"
                step["faults"] = [rng.choice(ebb3mon.fatal_faults_at(op, rng.randrange(3)))]
            steps.append(step)
    scen = {"board": {"version": rng.choice(["3.0.2", "3.0.10"]), "nickname": rng.choice(["", "Ada"])},
            "setup": rng.choice(["attach", "connect", "none"]), "steps": steps}
    run_case(ctx, ["random history"], scen, cause="history")


def marathon(ctx, rng):
    """ONE latched object asked 66000 more times: nothing may reach the port and every answer is the
    failure value, on the 65536th blocked request as on the first."""
    world = ebb3mon.World(board_kwargs={"version": "3.0.2"})
    world.attach()
    ebb3mon.call_step(world, {"m": "record_error", "a": ["first error"]})
    n = ctx.budget(66_500, 140_000)
    names = [("command", ["SM,10,0,0"], False), ("query", ["QS"], None), ("pen_lower", [100], None),
             ("query_steps", [], None), ("var_read", [3], None), ("xy_move", [1, 2, 30], None)]
    for i in range(n):
        name, args, fail = names[i % len(names)]
        mark = world.log.mark()
        top, _ = ebb3mon.call_step(world, {"m": name, "a": args})
        wrote = [e for e in world.log.since(mark) if e["kind"] == "write"]
        res = None if top is None else top.get("result")
        bad = top is None or "raised" in top or wrote or world.obj.__dict__.get("err") != "first error" or \
            (name == "command" and res is not False) or (name != "command" and res not in (None, False, (None, None)))
        if bad:
            ctx.violation("latched object did not stay silent / failing on a long run", {
                "blocked_request_number": i + 1, "method": name, "returned": repr(res),
                "wrote": [e["data"].decode("latin-1") for e in wrote], "err": world.obj.__dict__.get("err"),
                "raised": repr(top.get("raised")) if top and "raised" in top else None})
            break
        if i % 5000 == 4999:
            world.log.events.clear()
            world.mon.done = []
            world.mon.online = []
    ctx.case(["one latched object, tens of thousands of blocked requests"], ("marathon", n))


def run(ctx):
    rng = ctx.rng
    marathon(ctx, rng)
    ctx.need("one latched object, tens of thousands of blocked requests", 1)
    ctx.extra["registry"] = [ebb3mon.registry_report()]
    quick = ctx.tier == "quick"
    methods = list(FOLLOWERS)
    if ctx.nshards > 1:
        methods = [m for i, m in enumerate(methods) if i % ctx.nshards == ctx.shard]
    for _rep in range(1 if quick else 12):
        systematic(ctx, rng, methods, all_kinds=True)
    for _rep in range(10 if quick else 60):
        special_states(ctx, rng)
    for _ in range(ctx.budget(6000, 40000)):
        if not ctx.alive():
            break
        if rng.random() < 0.03:
            from .. import noise
            noise.burst(ctx, rng, exclude=('versions', 'discovery'))
        history(ctx, rng)
    for _ in range(ctx.budget(1500, 10000)):
        two_objects(ctx, rng)
    for _ in range(ctx.budget(150, 1500)):
        many_later_errors(ctx, rng)
    ctx.need("many different later errors on one latched object", 100)
    ctx.need("history: after calls to other library functions", 100)
    causes = ctx.extra.pop("_causes", set())
    pairs = ctx.extra.pop("_pairs", set())
    transitions = ctx.extra.pop("_transitions", set())
    ctx.extra["distinct_latch_causes"] = len(causes)
    ctx.extra["latch_cause_examples"] = sorted(causes)[:10]
    ctx.extra["distinct_blocked_state_x_method_pairs"] = len(pairs)
    ctx.extra["state_transitions_observed"] = sorted(transitions)
    ctx.need("monitor:blocked depth-0 calls checked", 5000)
    ctx.need("events:err assignments observed", 200)
    ctx.need("state:latched", 2000)
    ctx.need("state:unconnected", 300)
    ctx.need("random history", 200)
    ctx.need("special state", 100)
    ctx.need("two objects alive", 1000)
    ctx.need("monitor:calls on the healthy twin checked", 2000)
    ctx.need("special state + failing reconnect", 100)
    ctx.need("monitor:disconnect() calls checked", 300)
    ctx.need("monitor:connect() on a latched, unconnected object checked", 50)
    if ctx.nshards == 1:
        ctx.need("systematic latch cause", 2000)
        for name in FOLLOWERS:
            ctx.need("follower:" + name, 50)
    if len(pairs) < 2 * len(FOLLOWERS):
        ctx.note("only %d of %d (state, method) pairs observed" % (len(pairs), 2 * len(FOLLOWERS)))
        ctx.need("all (blocked state, method) pairs observed", 1)


def replay(ctx, rec):
    if rec["witness"]["scenario"].get("two_objects"):
        for _ in range(300):
            two_objects(ctx, ctx.rng)
        return
    run_case(ctx, ["replay"], rec["witness"]["scenario"], cause="replay")
    ctx.extra.pop("_causes", None), ctx.extra.pop("_pairs", None), ctx.extra.pop("_transitions", None)
