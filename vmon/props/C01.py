"""C01 - timed-move prediction == firmware accumulator recurrence.

Monitor: icontract post-condition on the real ebb_calc.move_dist_lt (so the deprecated
aliases in ebb_motion, which call it through the module attribute, are observed too),
comparing every in-domain return value with the exact integer recurrence."""
import mpmath

from .. import contracts, gen_stepper as G
from ..oracles import stepper as S

LEVEL = "exploration"
THOROUGH_SHARDS = 16
RULE = ("seeded stratified generator over (rate, accel, T, accumulator|clear) x ambient mpmath "
        "precision; every case is inside the firmware-valid domain (|rate_k| <= 2^31-1 for "
        "k=1..T, |rate|,|accel| < 2^31, T <= 2^32); a case is non-trivial when T >= 1 and "
        "distinct by its full argument tuple + ambient setting")
ASSUMPTIONS = [
    "reference model = the integer recurrence as worded in the property, evaluated in closed "
    "form with Python ints and self-checked against literal ticking for T <= 3000 in every run",
    "inputs are Python ints (the statement quantifies over integers)",
]
M = S.M


def classify(rec):
    return None


class Monitor:
    def __init__(self, ctx):
        self.ctx = ctx
        self.ambient = None
        self.last = None
        self.imported_under = None

    def post(self, rate, accel, time, accum, result):
        ctx = self.ctx
        if not all(type(v) is int for v in (rate, accel, time)) or \
                not (accum == "clear" or type(accum) is int):
            ctx.count("skipped:non-integer input")
            return True
        if time < 1 or (accum != "clear" and not 0 <= accum < M) or \
                abs(rate) > S.RMAX or abs(accel) > S.RMAX or time > 2 ** 32 or \
                not S.lt_in_domain(rate, accel, time):
            ctx.count("skipped:outside domain")
            return True
        ctx.count("monitor:move_dist_lt evaluated")
        want = S.lt_expected(rate, accel, time, accum)
        self.last = want
        ok = (isinstance(result, tuple) and len(result) == 2 and
              all(type(v) is int for v in result) and tuple(result) == want)
        if not ok:
            ctx.violation("move_dist_lt != recurrence", {
                "fn": "move_dist_lt", "args": [rate, accel, time, accum],
                "ambient": self.ambient, "imported_under": self.imported_under,
                "got": result, "expected": list(want)})
        return True


def install(ctx):
    from plotink import ebb_calc
    mon = Monitor(ctx)
    contracts.install(ebb_calc, "move_dist_lt", post=mon.post, ctx=ctx)
    return mon


def one_case(ctx, mon, rate, accel, time, accum, ambient, via):
    from plotink import ebb_calc, ebb_motion
    mon.ambient = ambient.describe()
    mon.last = None
    try:
        with ambient:
            if via == "move_dist_lt" and (rate + time) % 9 == 0:
                got = G.by_keyword(ebb_calc.move_dist_lt, (rate, accel, time, accum))
                ctx.tag("arguments passed by keyword")
            elif via == "move_dist_lt":
                got = ebb_calc.move_dist_lt(rate, accel, time, accum)
            elif via == "default-accum":
                got = ebb_calc.move_dist_lt(rate, accel, time)
            elif via == "moveDistLMA":
                got = ebb_motion.moveDistLMA(rate, accel, time, accum)
            else:
                got = ebb_motion.moveDistLM(rate, accel, time)
    except Exception as exc:  # the predictor is total on its domain
        ctx.violation("exception", {"fn": via, "args": [rate, accel, time, accum],
                                    "ambient": mon.ambient, "exception": repr(exc)})
        return
    if accum != "clear" and not (type(accum) is int and 0 <= accum < M):
        return
    if time < 1 or not S.lt_in_domain(rate, accel, time):
        return
    want = S.lt_expected(rate, accel, time, "clear" if accum == "clear" else accum)
    if via == "moveDistLM":
        ctx.count("monitor:alias moveDistLM")
        if got != want[0] or type(got) is not int:
            ctx.violation("alias moveDistLM", {"fn": via, "args": [rate, accel, time, 0],
                                               "ambient": mon.ambient, "got": got, "expected": want[0]})
    elif via == "moveDistLMA":
        ctx.count("monitor:alias moveDistLMA")
        if tuple(got) != want:
            ctx.violation("alias moveDistLMA", {"fn": via, "args": [rate, accel, time, accum],
                                                "ambient": mon.ambient, "got": got, "expected": list(want)})


def self_check(ctx, rate, accel, time, accum):
    ctx.count("oracle self-check (literal ticking)")
    if S.tick_lt(rate, accel, time, accum) != S.lt_expected(rate, accel, time, accum):
        ctx.oracle_fault("closed form != literal ticking", [rate, accel, time, accum])


def run(ctx):
    from .. import wtests
    wtests.run(ctx)
    mon = install(ctx)
    rng = ctx.rng
    from .. import longrun
    _early = longrun.Early()
    n = ctx.budget(120_000, 1_200_000)
    done = 0
    while done < n and ctx.alive():
        classes, rate, accel, time, accum = G.gen_lt_case(rng)
        if abs(rate) > S.RMAX or abs(accel) > S.RMAX:
            ctx.count("generator:redrawn (|rate| or |accel| > 2^31-1)")
            continue
        ambient = G.pick_ambient(rng)
        c = rng.random()
        via = "move_dist_lt"
        if c < 0.12:
            via = "moveDistLMA"
        elif c < 0.20:
            via, accum = "moveDistLM", 0
            classes = [x for x in classes if not x.startswith("accum=")] + ["accum=0"]
        elif c < 0.25 and accum == "clear":
            via = "default-accum"
        if accum == "clear" and via in ("move_dist_lt", "moveDistLMA") and rng.random() < 0.3:
            accum = G.fresh_clear(rng)
            classes.append("'clear' passed as a string built at run time")
        if rng.random() < 0.004:
            from .. import noise
            noise.burst(ctx, rng, exclude=('stepper', 'legacy-stepper'))
        if rng.random() < 0.01:
            from plotink import ebb_calc as _ec
            G.failed_call(rng, _ec.move_dist_lt, 4)
            classes.append("after a failed call (malformed arguments, exception caught by the caller)")
        classes.append("ambient:%s" % ambient.kind)
        classes.append("via:" + via)
        ctx.case(classes, (rate, accel, time, accum, ambient.kind, ambient.value, via))
        ctx.sample({"via": via, "rate": rate, "accel": accel, "T": time, "accum": accum,
                    "ambient": ambient.describe()}, tag=classes[0])
        one_case(ctx, mon, rate, accel, time, accum, ambient, via)
        _early.remember((rate, accel, time, accum, via))
        if rng.random() < 0.2:
            related_calls(ctx, mon, rng, rate, accel, time, accum, ambient)
        if time <= 3000 and done % 4 == 0:
            self_check(ctx, rate, accel, time, accum)
        done += 1
    chained(ctx, mon, ctx.budget(300, 3000))
    from plotink import ebb_calc as _ec2
    longrun.churn_then_replay(
        ctx, _ec2, "move_dist_lt", lambda k: (1000 + k, k % 17 - 8, 1 + k % 5, k % 1000), _early,
        lambda it: one_case(ctx, mon, it[0], it[1], it[2], it[3], G.Ambient("dps", 15), it[4]))
    ctx.need("history: asked again after 100000+ other distinct requests", 30)
    import_time_phase(ctx, ctx.budget(1500, 12000))
    mon = install(ctx)
    for cls in ("arguments passed by keyword", "'clear' passed as a string built at run time",
                "after a failed call (malformed arguments, exception caught by the caller)",
                "module imported under low precision", "history: related arguments after a previous call", "T=1", "T=2", "T=3", "T:4..1e3", "T:1e3..1e6", "T:1e6..2^24", "T:2^24..2^32",
                "accel=0", "accel=+-1", "accel odd neg", "accel odd pos", "accel even",
                "r1=0,accel<0", "r1=0,accel>0", "rate at +-(2^31-1)", "rate reverses inside move",
                "accum=clear", "accum=0", "accum=2^31-1", "accum=other", "total==kM", "total==kM-1",
                "via:moveDistLMA", "via:moveDistLM", "ambient:dps", "ambient:prec", "ambient:decimal",
                "ambient:decimal-trap-inexact",
                "ambient:workdps", "chained move"):
        ctx.need(cls, 100)
    ctx.need("monitor:move_dist_lt evaluated", 50_000)
    ctx.need("oracle self-check (literal ticking)", 1000)
    contracts.uninstall_all()


def related_calls(ctx, mon, rng, rate, accel, time, accum, ambient):
    """History: the next calls share all but one argument with the previous one."""
    for _ in range(rng.randint(1, 3)):
        c = rng.randrange(5)
        r2, a2, t2, acc2 = rate, accel, time, accum
        if c == 0:
            r2 = rng.choice((rate + 1, rate - 1, -rate, -rate // 2, 0))
        elif c == 1:
            a2 = rng.choice((accel + 1, accel - 1, -accel, 0))
        elif c == 2:
            t2 = rng.choice((1, 2, max(1, time - 1), time + 1, max(1, time // 2)))
        elif c == 3:
            acc2 = rng.choice(("clear", 0, M - 1, rng.randrange(M)))
        else:
            r2, a2 = [(-2 if v == -1 else -1 if v == -2 else v) for v in (rate, accel)]
            if (r2, a2) == (rate, accel):
                a2 = rng.choice((-1, -2))
        if abs(r2) > S.RMAX or abs(a2) > S.RMAX or not S.lt_in_domain(r2, a2, t2):
            continue
        ctx.case(["history: related arguments after a previous call"], ("rel", r2, a2, t2, acc2, rate, accel, time))
        one_case(ctx, mon, r2, a2, t2, acc2, ambient, "move_dist_lt")
        rate, accel, time, accum = r2, a2, t2, acc2


def import_time_phase(ctx, n_per_setting):
    """The module is re-imported while the caller's precision is low; then ordinary calls."""
    rng = ctx.rng
    for setting in G.IMPORT_SETTINGS:
        contracts.uninstall_all()
        G.reload_ebb_calc(setting)
        mon = install(ctx)
        mon.imported_under = list(setting)
        done = 0
        while done < n_per_setting and ctx.alive():
            classes, rate, accel, time, accum = G.gen_lt_case(rng)
            if abs(rate) > S.RMAX or abs(accel) > S.RMAX:
                continue
            if rng.random() < 0.5:
                accum = "clear"
            ambient = G.pick_ambient(rng) if rng.random() < 0.5 else G.Ambient("dps", 15)
            via = rng.choice(("move_dist_lt", "move_dist_lt", "moveDistLMA"))
            ctx.case(["module imported under low precision", "imported under %s=%d" % setting],
                     (rate, accel, time, accum, "import", setting, ambient.kind, ambient.value))
            one_case(ctx, mon, rate, accel, time, accum, ambient, via)
            done += 1
    ctx.need("history: after calls to other library functions", 150)
    contracts.uninstall_all()
    G.reload_ebb_calc(None)


def chained(ctx, mon, n_chains):
    """Accumulator carried from move to move, as a plot job does."""
    from plotink import ebb_calc
    rng = ctx.rng
    for _ in range(n_chains):
        acc = "clear"
        pos_sum, model_total = 0, None
        for _step in range(rng.randint(3, 12)):
            classes, rate, accel, time, _ = G.gen_lt_case(rng)
            if abs(rate) > S.RMAX or abs(accel) > S.RMAX:
                continue
            ambient = G.pick_ambient(rng)
            ctx.case(["chained move"], (rate, accel, time, acc, "chain"))
            mon.ambient = ambient.describe()
            with ambient:
                pos, acc_next = ebb_calc.move_dist_lt(rate, accel, time, acc)
            acc0 = S.lt_clear_value(rate, accel) if acc == "clear" else acc
            if model_total is None:
                model_total = acc0
            model_total = S.lt_total(rate, accel, time, model_total)
            pos_sum += pos
            ctx.count("monitor:chain conservation")
            if not isinstance(acc_next, int) or not 0 <= acc_next < M:
                break           # already reported by the contract
            if (pos_sum, acc_next) != (model_total // M, model_total % M):
                ctx.violation("chained accumulator diverges", {
                    "fn": "chain", "last": [rate, accel, time, acc], "got": [pos_sum, acc_next],
                    "expected": [model_total // M, model_total % M]})
                break
            acc = acc_next


def replay(ctx, rec):
    w = rec["witness"]
    if w.get("imported_under"):
        G.reload_ebb_calc(tuple(w["imported_under"]))
    mon = install(ctx)
    mon.imported_under = w.get("imported_under")
    args = w.get("args") or w.get("last")
    rate, accel, time, accum = args
    amb = w.get("ambient") or ["dps", 15]
    via = w["fn"] if w["fn"] in ("moveDistLMA", "moveDistLM", "default-accum") else "move_dist_lt"
    ctx.case(["replay"], None)
    one_case(ctx, mon, rate, accel, time, accum, G.Ambient(*amb), via)
    contracts.uninstall_all()
