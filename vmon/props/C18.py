"""C18 - travel-limit helpers: result in range, flags exactly the outliers.

Monitors: icontract post-conditions on the real checkLimits, checkLimitsTol,
constrainLimits and point_in_bounds; the oracle compares in exact rationals."""
import math
from fractions import Fraction

from .. import contracts

LEVEL = "exploration"
THOROUGH_SHARDS = 8
RULE = ("(a) exhaustive small-integer grid value in -3..9, 0 <= lower <= upper <= 6, tolerance in "
        "{0,1,2}; (b) seeded generator over ints, short dyadic floats (all sums exact) and random "
        "doubles, stratified by the position of the value relative to each bound and to bound +- "
        "tolerance (below / exactly at / above), lower == upper, tolerance 0; random-double cases "
        "within 4 ulp of bound +- tolerance are counted as borderline and not decided; distinct by "
        "argument tuple; non-trivial when the value is not strictly inside the range")
ASSUMPTIONS = ["finite numbers, lower <= upper, tolerance >= 0 (the statement's domain)",
               "comparisons decided in exact rational arithmetic (fractions.Fraction of the inputs)"]


def classify(rec):
    return None


def F(x):
    return Fraction(x)


def ulp_guard(a, b):
    """True when the float sum a+b is inexact enough to matter for a comparison at `a+b`."""
    return F(a) + F(b) != F(a + b)


class Monitor:
    def __init__(self, ctx):
        self.ctx = ctx
        self.last_tol = None

    def _domain(self, *vals):
        for v in vals:
            if isinstance(v, bool) or not isinstance(v, (int, float)):
                return False
            if isinstance(v, float) and not math.isfinite(v):
                return False
        return True

    def post_check(self, value, lower_bound, upper_bound, result):
        ctx = self.ctx
        if not self._domain(value, lower_bound, upper_bound) or lower_bound > upper_bound:
            ctx.count("skipped:outside domain")
            return True
        ctx.count("monitor:checkLimits evaluated")
        want_val = value if lower_bound <= value <= upper_bound else \
            (upper_bound if F(value) > F(upper_bound) else lower_bound)
        want_flag = not (F(lower_bound) <= F(value) <= F(upper_bound))
        ok = isinstance(result, tuple) and len(result) == 2 and result[0] == want_val and \
            result[1] is want_flag and F(lower_bound) <= F(result[0]) <= F(upper_bound)
        if not ok:
            ctx.violation("checkLimits", {"fn": "checkLimits", "args": [value, lower_bound, upper_bound],
                                          "got": result, "expected": [want_val, want_flag]})
        return True

    def post_constrain(self, value, lower_bound, upper_bound, result):
        ctx = self.ctx
        if not self._domain(value, lower_bound, upper_bound) or lower_bound > upper_bound:
            ctx.count("skipped:outside domain")
            return True
        ctx.count("monitor:constrainLimits evaluated")
        want_val = value if lower_bound <= value <= upper_bound else \
            (upper_bound if F(value) > F(upper_bound) else lower_bound)
        if not (result == want_val and F(lower_bound) <= F(result) <= F(upper_bound)):
            ctx.violation("constrainLimits", {"fn": "constrainLimits",
                                              "args": [value, lower_bound, upper_bound],
                                              "got": result, "expected": want_val})
        return True

    def tol_flag(self, value, lower, upper, tol):
        """Exact verdict 'outside by more than the tolerance'; None when borderline
        (float rounding of bound +- tolerance could legitimately go either way)."""
        v, lo, hi, t = F(value), F(lower), F(upper), F(tol)
        exact = v > hi + t or v < lo - t
        for bound, sign in ((upper, 1), (lower, -1)):
            edge = F(bound) + sign * t
            if isinstance(bound, float) or isinstance(tol, float):
                approx = bound + sign * tol
                if F(approx) != edge:
                    # inexact float sum: undecided within 4 ulp of the edge
                    width = 4 * F(math.ulp(approx))
                    if abs(v - edge) <= width:
                        return None
        return exact

    def post_tol(self, value, lower_bound, upper_bound, tolerance, result):
        ctx = self.ctx
        if not self._domain(value, lower_bound, upper_bound, tolerance) or \
                lower_bound > upper_bound or tolerance < 0:
            ctx.count("skipped:outside domain")
            return True
        want_val = value if lower_bound <= value <= upper_bound else \
            (upper_bound if F(value) > F(upper_bound) else lower_bound)
        want_flag = self.tol_flag(value, lower_bound, upper_bound, tolerance)
        ctx.count("monitor:checkLimitsTol evaluated")
        ok = isinstance(result, tuple) and len(result) == 2 and result[0] == want_val and \
            F(lower_bound) <= F(result[0]) <= F(upper_bound) and isinstance(result[1], bool)
        if want_flag is None:
            ctx.count("borderline (within 4 ulp of bound +- tolerance): flag not decided")
        elif ok and result[1] is not want_flag:
            ok = False
        if not ok:
            ctx.violation("checkLimitsTol", {"fn": "checkLimitsTol",
                                             "args": [value, lower_bound, upper_bound, tolerance],
                                             "got": result, "expected": [want_val, want_flag]})
        return True

    def post_pib(self, point, bounds, tolerance, result):
        ctx = self.ctx
        try:
            (x, y), ((x0, y0), (x1, y1)) = point, bounds
        except (TypeError, ValueError):
            ctx.count("skipped:outside domain")
            return True
        if not self._domain(x, y, x0, y0, x1, y1, tolerance) or x0 > x1 or y0 > y1 or tolerance < 0:
            ctx.count("skipped:outside domain")
            return True
        fx = self.tol_flag(x, x0, x1, tolerance)
        fy = self.tol_flag(y, y0, y1, tolerance)
        ctx.count("monitor:point_in_bounds evaluated")
        if fx is None or fy is None:
            ctx.count("borderline (within 4 ulp of bound +- tolerance): flag not decided")
            return True
        if result is not (not (fx or fy)):
            ctx.violation("point_in_bounds", {"fn": "point_in_bounds", "args": [point, bounds, tolerance],
                                              "got": result, "expected": not (fx or fy)})
        return True


MON = None


def install(ctx):
    from plotink import plot_utils
    mon = Monitor(ctx)
    contracts.install(plot_utils, "checkLimits", post=mon.post_check, ctx=ctx)
    contracts.install(plot_utils, "constrainLimits", post=mon.post_constrain, ctx=ctx)
    contracts.install(plot_utils, "checkLimitsTol", post=mon.post_tol, ctx=ctx)
    contracts.install(plot_utils, "point_in_bounds", post=mon.post_pib, ctx=ctx)
    global MON
    MON = mon
    return mon


def drive(ctx, value, lo, hi, tol, other=None):
    """All four helpers on one (value, range, tolerance); also the agreement of the real
    point_in_bounds with the real checkLimitsTol applied per coordinate."""
    from plotink import plot_utils
    try:
        plot_utils.checkLimits(value, lo, hi)
        plot_utils.constrainLimits(value, lo, hi)
        _, flag = plot_utils.checkLimitsTol(value, lo, hi, tol)
        oy, olo, ohi = other if other else (lo, lo, hi)
        _, oflag = plot_utils.checkLimitsTol(oy, olo, ohi, tol)
        for point, bounds, flags in (((value, oy), ((lo, olo), (hi, ohi)), (flag, oflag)),
                                     ((oy, value), ((olo, lo), (ohi, hi)), (oflag, flag))):
            shape = (hash((value, oy)) & 0xFFFF) % 6
            p_arg, b_arg = point, bounds
            if shape == 0:
                p_arg = (c for c in point)                      # a one-shot generator
                ctx.tag("shape: point given as a one-shot iterator")
            elif shape == 1:
                p_arg, b_arg = iter(list(point)), (list(bounds[0]), list(bounds[1]))
                ctx.tag("shape: point given as a one-shot iterator")
            elif shape == 2:
                b_arg = iter([iter(bounds[0]), iter(bounds[1])])
                ctx.tag("shape: bounds given as one-shot iterators")
            elif shape == 3:
                p_arg, b_arg = list(point), [list(bounds[0]), list(bounds[1])]
            inb = plot_utils.point_in_bounds(p_arg, b_arg, tol)
            if MON.tol_flag(point[0], bounds[0][0], bounds[1][0], tol) is None or \
                    MON.tol_flag(point[1], bounds[0][1], bounds[1][1], tol) is None:
                ctx.count("borderline (within 4 ulp of bound +- tolerance): agreement not decided")
                continue
            ctx.count("monitor:point_in_bounds == per-axis checkLimitsTol (real vs real)")
            if inb is not (not (flags[0] or flags[1])):
                ctx.violation("point_in_bounds disagrees with checkLimitsTol", {
                    "fn": "agreement", "args": [value, lo, hi, tol, [oy, olo, ohi]],
                    "point_in_bounds": inb, "flags": list(flags)})
    except Exception as exc:
        ctx.violation("exception", {"fn": "drive", "args": [value, lo, hi, tol, other],
                                    "exception": repr(exc)})


def history(ctx, rng):
    """State must not leak between calls: one bounds object is re-used and changed IN PLACE between
    calls, and consecutive calls differ in exactly one argument (value, one bound, or tolerance)."""
    from plotink import plot_utils
    kind = rng.choice(("int", "dyadic"))
    scale = rng.choice((4, 100, 10 ** 4))
    lo, hi = sorted((gen_number(rng, kind, scale), gen_number(rng, kind, scale)))
    olo, ohi = sorted((gen_number(rng, kind, scale), gen_number(rng, kind, scale)))
    tol = abs(gen_number(rng, kind, max(1, scale // 50)))
    bounds = [[lo, olo], [hi, ohi]]              # the SAME list objects throughout this history
    point = [gen_number(rng, kind, scale * 2), gen_number(rng, kind, scale * 2)]
    for step in range(rng.randint(3, 8)):
        c = rng.randrange(5)
        if c == 0:
            point[rng.randrange(2)] = gen_number(rng, kind, scale * 2)
        elif c == 1:                              # widen / shrink one limit in place
            axis = rng.randrange(2)
            if rng.random() < 0.5:
                bounds[1][axis] = max(bounds[0][axis], gen_number(rng, kind, scale * 2))
            else:
                bounds[0][axis] = min(bounds[1][axis], gen_number(rng, kind, scale * 2))
        elif c == 2:
            tol = abs(gen_number(rng, kind, max(1, scale // 50)))
        elif c == 3:                              # a point exactly on the (new) tolerance edge
            axis = rng.randrange(2)
            point[axis] = rng.choice((bounds[1][axis] + tol, bounds[0][axis] - tol, bounds[1][axis], bounds[0][axis]))
        try:
            inb = plot_utils.point_in_bounds(point, bounds, tol)
            _, fx = plot_utils.checkLimitsTol(point[0], bounds[0][0], bounds[1][0], tol)
            _, fy = plot_utils.checkLimitsTol(point[1], bounds[0][1], bounds[1][1], tol)
            plot_utils.checkLimits(point[0], bounds[0][0], bounds[1][0])
            plot_utils.constrainLimits(point[1], bounds[0][1], bounds[1][1])
        except Exception as exc:
            ctx.violation("exception", {"fn": "history", "args": [list(point), [list(b) for b in bounds], tol],
                                        "exception": repr(exc)})
            return
        ctx.case(["history: bounds object re-used and changed in place", "history step %d" % min(step, 3)],
                 ("h", tuple(point), tuple(bounds[0]), tuple(bounds[1]), tol, step))
        if MON.tol_flag(point[0], bounds[0][0], bounds[1][0], tol) is None or \
                MON.tol_flag(point[1], bounds[0][1], bounds[1][1], tol) is None:
            ctx.count("borderline (within 4 ulp of bound +- tolerance): agreement not decided")
            continue
        ctx.count("monitor:point_in_bounds == per-axis checkLimitsTol (real vs real)")
        if inb is not (not (fx or fy)):
            ctx.violation("point_in_bounds disagrees with checkLimitsTol", {
                "fn": "history", "args": [list(point), [list(b) for b in bounds], tol], "step": step,
                "point_in_bounds": inb, "flags": [fx, fy]})


def position_class(value, lo, hi, tol):
    v, l, h, t = F(value), F(lo), F(hi), F(tol)
    out = []
    if v < l - t:
        out.append("below lower-tol")
    elif v == l - t and t > 0:
        out.append("exactly lower-tol")
    elif v < l:
        out.append("within tol below lower")
    elif v == l:
        out.append("exactly lower")
    elif v < h:
        out.append("strictly inside")
    elif v == h:
        out.append("exactly upper")
    elif v < h + t:
        out.append("within tol above upper")
    elif v == h + t and t > 0:
        out.append("exactly upper+tol")
    else:
        out.append("above upper+tol")
    if l == h:
        out.append("lower==upper")
    if t == 0:
        out.append("tol=0")
    return out


def gen_number(rng, kind, scale):
    if kind == "int":
        return rng.randint(-scale, scale)
    if kind == "dyadic":
        return rng.randint(-scale * 8, scale * 8) / 8.0
    return rng.uniform(-scale, scale)


def run(ctx):
    from .. import wtests
    wtests.run(ctx)
    install(ctx)
    rng = ctx.rng
    # (a) exhaustive small grid
    n_grid = 0
    if ctx.shard == 0:
        for lo in range(0, 7):
            for hi in range(lo, 7):
                for tol in (0, 1, 2):
                    for value in range(-3, 10):
                        cls = position_class(value, lo, hi, tol) + ["grid:exhaustive small integers"]
                        ctx.case(cls, ("g", value, lo, hi, tol),
                                 nontrivial="strictly inside" not in cls)
                        drive(ctx, value, lo, hi, tol)
                        n_grid += 1
        ctx.extra["exhaustive_subspace"] = ("value in -3..9 x 0<=lower<=upper<=6 x tol in {0,1,2}: "
                                            "%d cases, all enumerated" % n_grid)
    # (b) stratified random
    n = ctx.budget(60_000, 1_500_000)
    done = 0
    while done < n and ctx.alive():
        if rng.random() < 0.004:
            from .. import noise
            noise.burst(ctx, rng, exclude=('limits', 'clip'))
        if rng.random() < 0.005:
            from ..gen_stepper import failed_call
            from plotink import plot_utils as _pu
            failed_call(rng, rng.choice((_pu.checkLimits, _pu.checkLimitsTol, _pu.constrainLimits, _pu.point_in_bounds)),
                        rng.choice((3, 4)))
            ctx.tag("history: after a failed call (malformed arguments)")
        kind = rng.choice(("int", "dyadic", "dyadic", "float"))
        scale = rng.choice((4, 100, 10 ** 4, 10 ** 9))
        lo = gen_number(rng, kind, scale)
        hi = gen_number(rng, kind, scale)
        if lo > hi:
            lo, hi = hi, lo
        if rng.random() < 0.1:
            hi = lo
        tol = abs(gen_number(rng, kind, max(1, scale // 50))) if rng.random() < 0.8 else 0
        if kind == "float" and rng.random() < 0.3:
            tol = rng.choice((1e-9, 1e-6, 0.1))
        c = rng.randrange(10)
        if c == 0:
            value = lo
        elif c == 1:
            value = hi
        elif c == 2:
            value = hi + tol
        elif c == 3:
            value = lo - tol
        elif c == 4:
            value = hi + tol / 2 if kind != "int" else hi + tol // 2
        elif c == 5:
            value = lo - tol / 2 if kind != "int" else lo - tol // 2
        elif c == 6:
            value = math.nextafter(hi + tol, math.inf) if kind == "float" else hi + tol + (1 if kind == "int" else 0.125)
        elif c == 7:
            value = math.nextafter(lo - tol, -math.inf) if kind == "float" else lo - tol - (1 if kind == "int" else 0.125)
        elif c == 8:
            value = rng.randint(int(lo), int(hi)) if kind == "int" else \
                (lo + (hi - lo) * rng.randrange(0, 9) / 8.0)
        else:
            value = gen_number(rng, kind, scale * 2)
        other = None
        if rng.random() < 0.5:
            oy = gen_number(rng, kind, scale)
            olo = gen_number(rng, kind, scale)
            ohi = gen_number(rng, kind, scale)
            if olo > ohi:
                olo, ohi = ohi, olo
            other = (oy, olo, ohi)
        cls = position_class(value, lo, hi, tol) + ["numbers:" + kind]
        ctx.case(cls, (value, lo, hi, tol, other), nontrivial="strictly inside" not in cls)
        ctx.sample({"value": value, "lower": lo, "upper": hi, "tolerance": tol, "other_axis": other},
                   tag=cls[0])
        drive(ctx, value, lo, hi, tol, other)
        done += 1
        if done % 4 == 0:
            history(ctx, rng)
    # (c) mixed int / float arguments where floats stop being able to tell neighbouring integers apart
    for _ in range(ctx.budget(6_000, 120_000)):
        e = rng.choice((53, 53, 54, 55, 60, 62))
        base = 2 ** e
        as_float = lambda v: float(v)      # noqa: E731 (exact for the multiples used)
        step = 2 ** max(0, e - 52)          # float spacing at this magnitude
        lo_i = rng.choice((0, -base, base - 8 * step))
        hi_i = base + rng.choice((0, 2 * step, 8 * step))
        mix = rng.randrange(4)
        lo, hi = (lo_i, hi_i) if mix == 0 else (as_float(lo_i), as_float(hi_i)) if mix == 1 else \
            (lo_i, as_float(hi_i)) if mix == 2 else (as_float(lo_i), hi_i)
        if lo > hi:
            continue
        tol = rng.choice((0, 0, 0, step, 3, 1e-9, 0.5))
        near = rng.choice((hi_i, lo_i))
        value = near + rng.choice((-3, -2, -1, 0, 1, 2, 3, step, -step, 2 * step + 1))
        if rng.random() < 0.3:
            value = float(value)
        cls = position_class(value, lo, hi, tol) + ["numbers:mixed int/float around 2^%d" % e,
                                                    "numbers:mixed int/float beyond 2^53"]
        ctx.case(cls, ("mixed", value, lo, hi, tol, type(value).__name__, type(lo).__name__, type(hi).__name__))
        drive(ctx, value, lo, hi, tol)
    # long memory: the grid cases once more after 50000 distinct rectangles / ranges each (raw calls)
    from .. import longrun
    from plotink import plot_utils as _pu3
    early = longrun.Early(48)
    for lo in range(0, 4):
        for hi in range(lo, 4):
            for value in (-1, 0, 2, 3, 5):
                early.remember((value, lo, hi, 1))
    for fname, mk in (("point_in_bounds", lambda k: ([k % 7, 3.5], [[0.0, 0.0], [10.0 + k, 8.0]], 1e-9)),
                      ("checkLimitsTol", lambda k: (k % 11, 0.0, 5.0 + k, 0.5)),
                      ("checkLimits", lambda k: (k % 11, 0.0, 5.0 + k)),
                      ("constrainLimits", lambda k: (k % 11, 0.0, 5.0 + k))):
        longrun.churn_then_replay(ctx, _pu3, fname, mk, early if fname == "constrainLimits" else longrun.Early(0),
                                  lambda it: drive(ctx, *it), n_quick=50_000, n_thorough=120_000)
    ctx.need("history: asked again after many other distinct requests", 30)
    ctx.need("shape: point given as a one-shot iterator", 2000)
    ctx.need("shape: bounds given as one-shot iterators", 1000)
    for cls in ("numbers:mixed int/float beyond 2^53", "below lower-tol", "exactly lower-tol", "within tol below lower", "exactly lower",
                "strictly inside", "exactly upper", "within tol above upper", "exactly upper+tol",
                "above upper+tol", "lower==upper", "tol=0", "numbers:int", "numbers:dyadic",
                "numbers:float", "history: bounds object re-used and changed in place"):
        ctx.need(cls, 200)
    for mon in ("monitor:checkLimits evaluated", "monitor:constrainLimits evaluated",
                "monitor:checkLimitsTol evaluated", "monitor:point_in_bounds evaluated"):
        ctx.need(mon, 20_000)
    ctx.need("history: after calls to other library functions", 150)
    contracts.uninstall_all()


def replay(ctx, rec):
    install(ctx)
    w = rec["witness"]
    a = w["args"]
    ctx.case(["replay"], None)
    if w["fn"] in ("checkLimits", "constrainLimits"):
        drive(ctx, a[0], a[1], a[2], 0)
    elif w["fn"] == "checkLimitsTol":
        drive(ctx, a[0], a[1], a[2], a[3])
    elif w["fn"] == "point_in_bounds":
        from plotink import plot_utils
        plot_utils.point_in_bounds(a[0], a[1], a[2])
    else:
        drive(ctx, a[0], a[1], a[2], a[3], tuple(a[4]) if a[4] else None)
    contracts.uninstall_all()
