"""C08 - segment clipping returns exactly the part of the segment inside the rectangle.

Monitor: icontract post-condition on the real plot_utils.clip_segment; the oracle is an
exact (Fraction) Liang-Barsky computation of the parameter interval of the input segment
inside the rectangle, inside the rectangle shrunk by tol and inside it grown by tol, with
tol = 1e-9 x the coordinate scale (the library's own default point tolerance at unit
scale).  Loop iterations are counted with a hook on clip_code."""
from fractions import Fraction

from .. import contracts

LEVEL = "exploration"
THOROUGH_SHARDS = 16
RULE = ("seeded generator: rectangle (scales 1e-3..1e6, integer lattice, zero-width, zero-area) x "
        "segment whose two endpoints are placed in chosen regions of the 3x3 region grid (all 81 "
        "region pairs must be observed), plus corner crossings, segments collinear with an edge, "
        "vertical / horizontal / zero-length segments, endpoints exactly on edges and corners, far "
        "outliers (|coordinate| <= 1e12); distinct by (segment, rectangle); non-trivial when at least "
        "one endpoint is outside the rectangle")
ASSUMPTIONS = ["finite coordinates with magnitude <= 1e12, rectangle min <= max",
               "tolerance = 1e-9 x max |coordinate| (of segment and rectangle): accept/reject and all "
               "geometric clauses are decided against the rectangle shrunk / grown by that tolerance, "
               "so grazing and on-edge cases can legitimately go either way"]
TOL_REL = Fraction(1, 10 ** 9)


REACH_EXEMPT = {"point_in_bounds": "named by the anchors only as the tolerance notion callers use; clip_segment "
                                   "does not call it and this check does not decide it (C18 does)"}


def classify(rec):
    return None


def F(x):
    return Fraction(x)


def interval_inside(p1, p2, rect):
    """Exact parameter interval [ta, tb] of {t in [0,1]: p1 + t (p2-p1) in rect}, or None."""
    (x0, y0), (x1, y1) = rect
    if x0 > x1 or y0 > y1:
        return None
    ta, tb = Fraction(0), Fraction(1)
    for p, d, lo, hi in ((p1[0], p2[0] - p1[0], x0, x1), (p1[1], p2[1] - p1[1], y0, y1)):
        if d == 0:
            if p < lo or p > hi:
                return None
            continue
        t_lo, t_hi = (lo - p) / d, (hi - p) / d
        if t_lo > t_hi:
            t_lo, t_hi = t_hi, t_lo
        ta, tb = max(ta, t_lo), min(tb, t_hi)
        if ta > tb:
            return None
    return ta, tb


def dist2_point_segment(q, a, b):
    dx, dy = b[0] - a[0], b[1] - a[1]
    l2 = dx * dx + dy * dy
    if l2 == 0:
        return (q[0] - a[0]) ** 2 + (q[1] - a[1]) ** 2, Fraction(0)
    t = ((q[0] - a[0]) * dx + (q[1] - a[1]) * dy) / l2
    tc = max(Fraction(0), min(Fraction(1), t))
    px, py = a[0] + tc * dx, a[1] + tc * dy
    return (q[0] - px) ** 2 + (q[1] - py) ** 2, t


def region(p, rect):
    (x0, y0), (x1, y1) = rect
    col = 0 if p[0] < x0 else (2 if p[0] > x1 else 1)
    row = 0 if p[1] < y0 else (2 if p[1] > y1 else 1)
    return row * 3 + col


class Monitor:
    def __init__(self, ctx):
        self.ctx = ctx
        self.code_calls = 0
        self.max_iterations = 0

    def post(self, segment, bounds, result, OLD):
        ctx = self.ctx
        seg_in = OLD.segment
        try:
            p1 = (F(seg_in[0][0]), F(seg_in[0][1]))
            p2 = (F(seg_in[1][0]), F(seg_in[1][1]))
            rect = ((F(bounds[0][0]), F(bounds[0][1])), (F(bounds[1][0]), F(bounds[1][1])))
        except (TypeError, ValueError, OverflowError):
            ctx.count("skipped:outside domain (non-finite)")
            return True
        coords = [abs(v) for v in (*p1, *p2, *rect[0], *rect[1])]
        if rect[0][0] > rect[1][0] or rect[0][1] > rect[1][1] or max(coords) > 10 ** 200:
            ctx.count("skipped:outside domain")
            return True
        ctx.count("monitor:clip_segment evaluated")
        iterations = self.code_calls // 2
        self.max_iterations = max(self.max_iterations, iterations)
        if iterations >= 5:
            # (only meaningful while the routine classifies its end points through clip_code)
            ctx.tag("observed: five or more classification passes in one call (iteration failsafe territory)")
        scale = max(coords) or Fraction(1)
        tol = TOL_REL * scale
        witness = {"fn": "clip_segment", "segment": seg_in, "bounds": [list(bounds[0]), list(bounds[1])],
                   "got": result, "tolerance": float(tol)}
        try:
            accept, out = result
        except (TypeError, ValueError):
            ctx.violation("malformed result", witness)
            return True
        q1 = q2 = None
        try:
            q1 = (F(out[0][0]), F(out[0][1]))
            q2 = (F(out[1][0]), F(out[1][1]))
        except (TypeError, ValueError, IndexError, OverflowError):
            if accept:      # what accompanies a rejection is not specified (the input back, None, ...)
                ctx.violation("malformed result", witness)
                return True
            ctx.count("observed: rejection returned without a segment")
        shrunk = ((rect[0][0] + tol, rect[0][1] + tol), (rect[1][0] - tol, rect[1][1] - tol))
        grown = ((rect[0][0] - tol, rect[0][1] - tol), (rect[1][0] + tol, rect[1][1] + tol))
        inner = interval_inside(p1, p2, shrunk)
        outer = interval_inside(p1, p2, grown)
        if inner is None and outer is not None:
            ctx.tag("grazing (inside only within tolerance): either answer accepted")
        if not accept:
            ctx.tag("answer:reject")
            if inner is not None:
                witness["inside_parameter_interval"] = [float(inner[0]), float(inner[1])]
                ctx.violation("rejected although part of the segment is inside", witness)
            return True
        ctx.tag("answer:accept")
        if outer is None:
            ctx.violation("accepted although no part of the segment is inside", witness)
            return True
        tol2 = tol * tol
        params = []
        for name, q in (("first", q1), ("second", q2)):
            d2, t = dist2_point_segment(q, p1, p2)
            params.append(t)
            if d2 > tol2:
                witness["endpoint"] = name
                ctx.violation("returned endpoint is not on the input segment", witness)
                return True
            if not (grown[0][0] <= q[0] <= grown[1][0] and grown[0][1] <= q[1] <= grown[1][1]):
                witness["endpoint"] = name
                ctx.violation("returned endpoint is outside the rectangle", witness)
                return True
        seg_len2 = (p2[0] - p1[0]) ** 2 + (p2[1] - p1[1]) ** 2
        if seg_len2 > 0:
            # orientation: parameter of the first returned endpoint <= that of the second (+tol)
            gap = params[0] - params[1]
            if gap > 0 and gap * gap * seg_len2 > 4 * tol2:
                ctx.violation("orientation reversed", witness)
                return True
        if inner is not None:
            for t in inner:
                pt = (p1[0] + t * (p2[0] - p1[0]), p1[1] + t * (p2[1] - p1[1]))
                d2, _ = dist2_point_segment(pt, q1, q2)
                if d2 > 4 * tol2:
                    witness["uncovered_point"] = [float(pt[0]), float(pt[1])]
                    ctx.violation("returned segment does not cover all of the inside part", witness)
                    return True
        return True


def install(ctx):
    from plotink import plot_utils
    mon = Monitor(ctx)
    orig_code = plot_utils.clip_code

    def counting_clip_code(*args, **kwargs):
        mon.code_calls += 1
        if mon.code_calls > 400:        # 200 loop passes: the routine is not converging
            raise RuntimeError("monitor loop guard: clip_segment still looping after 200 passes")
        return orig_code(*args, **kwargs)

    plot_utils.clip_code = counting_clip_code
    contracts._installed.append((plot_utils, "clip_code", orig_code))

    def snap(segment):
        return [[segment[0][0], segment[0][1]], [segment[1][0], segment[1][1]]]

    contracts.install(plot_utils, "clip_segment", post=mon.post, snapshots={"segment": snap}, ctx=ctx)
    return mon


# ---------------------------------------------------------------- generators
def gen_rect(rng):
    c = rng.random()
    scale = rng.choice((1e-3, 1.0, 1.0, 100.0, 1e4, 1e6))
    if rng.random() < 0.06:
        scale = rng.choice((1e-170, 1e-120, 1e-12, 1e60, 1e120, 1e160))     # extreme but finite magnitudes
    if c < 0.25:
        x0, y0 = rng.randint(-5, 5), rng.randint(-5, 5)
        return "lattice", (x0, y0), (x0 + rng.randint(1, 8), y0 + rng.randint(1, 8)), 1.0
    if c < 0.33:
        x0, y0 = rng.uniform(-1, 1) * scale, rng.uniform(-1, 1) * scale
        return "zero-width rectangle", (x0, y0), (x0, y0 + rng.uniform(0.1, 1) * scale), scale
    if c < 0.38:
        x0, y0 = rng.uniform(-1, 1) * scale, rng.uniform(-1, 1) * scale
        return "zero-area rectangle", (x0, y0), (x0, y0), scale
    if c < 0.50:
        return "page at origin", (0, 0), (rng.choice((11.0, 8.5, 297, 210.0, 1056)), rng.choice((8.5, 17, 210, 816.0))), 100.0
    x0, y0 = rng.uniform(-1, 1) * scale, rng.uniform(-1, 1) * scale
    return "continuous", (x0, y0), (x0 + rng.uniform(0.01, 2) * scale, y0 + rng.uniform(0.01, 2) * scale), scale


def coord_in_band(rng, band, lo, hi, scale, lattice):
    """A coordinate below (0), within (1) or above (2) [lo, hi]."""
    span = (hi - lo) or scale
    if band == 1:
        c = rng.random()
        if c < 0.15:
            return lo
        if c < 0.30:
            return hi
        if lattice:
            return rng.randint(int(lo), int(hi))
        return lo + (hi - lo) * rng.random()
    sign = -1 if band == 0 else 1
    edge = lo if band == 0 else hi
    c = rng.random()
    if lattice:
        return edge + sign * rng.randint(1, 6)
    if c < 0.1:
        return edge + sign * span * 1e-7
    if c < 0.2:
        return edge + sign * rng.choice((1e3, 1e6)) * span
    return edge + sign * span * rng.uniform(0.001, 3)


def gen_case(rng):
    rcls, lo, hi, scale = gen_rect(rng)
    lattice = rcls == "lattice"
    classes = ["rect:" + rcls]
    if scale >= 1e60:
        classes.append("scale:huge (1e60..1e160)")
    elif scale <= 1e-12:
        classes.append("scale:tiny (1e-170..1e-12)")
    r1, r2 = rng.randrange(9), rng.randrange(9)
    p1 = [coord_in_band(rng, r1 % 3, lo[0], hi[0], scale, lattice),
          coord_in_band(rng, r1 // 3, lo[1], hi[1], scale, lattice)]
    p2 = [coord_in_band(rng, r2 % 3, lo[0], hi[0], scale, lattice),
          coord_in_band(rng, r2 // 3, lo[1], hi[1], scale, lattice)]
    c = rng.random()
    if c < 0.06:
        p2 = list(p1)
        classes.append("zero-length segment")
    elif c < 0.14:
        p2[0] = p1[0]
        classes.append("vertical segment")
    elif c < 0.22:
        p2[1] = p1[1]
        classes.append("horizontal segment")
    elif c < 0.30:
        # collinear with an edge
        if rng.random() < 0.5:
            p1[0] = p2[0] = rng.choice((lo[0], hi[0]))
        else:
            p1[1] = p2[1] = rng.choice((lo[1], hi[1]))
        classes.append("collinear with an edge")
    elif c < 0.40:
        # through a corner: p2 is p1 mirrored through a corner (or scaled)
        cx, cy = rng.choice((lo[0], hi[0])), rng.choice((lo[1], hi[1]))
        k = rng.choice((1, 1, 2, 0.5))
        p2 = [cx + (cx - p1[0]) * k, cy + (cy - p1[1]) * k]
        classes.append("through a corner")
    elif c < 0.45:
        p2 = [rng.choice((lo[0], hi[0])), rng.choice((lo[1], hi[1]))]
        classes.append("endpoint on a corner")
    return classes, [p1, p2], [list(lo), list(hi)]


def gen_corner_graze(rng):
    """A segment aimed through a corner of the rectangle (second end = first end mirrored through
    the corner, scaled), with decimal / fractional coordinates: in floating point the clipped
    vertex lands an ulp inside or outside and the routine alternates between the two boundaries of
    that corner - about 1 in 2500 of these exhausts the routine's iteration budget."""
    q = rng.choice((10, 100, 100, 1000, 7, 3, 64))
    lo = [rng.randint(-2000, 2000) / q, rng.randint(-2000, 2000) / q]
    hi = [lo[0] + rng.randint(1, 3000) / q, lo[1] + rng.randint(1, 3000) / q]
    corner = (rng.choice((lo[0], hi[0])), rng.choice((lo[1], hi[1])))
    p1 = [rng.randint(-6000, 6000) / q, rng.randint(-6000, 6000) / q]
    k = rng.choice((1, 2, 0.5, 3, 0.25))
    p2 = [corner[0] + (corner[0] - p1[0]) * k, corner[1] + (corner[1] - p1[1]) * k]
    if rng.random() < 0.5:
        p1, p2 = p2, p1
    return ["rect:continuous", "line aimed through a corner (decimal coordinates)"], [p1, p2], [lo, hi]


def hunt_unconverged(ctx, mon, rng, n):
    """Float pre-oracle over many corner-grazing segments (the inputs that reach the routine's
    iteration failsafe, ~1 in 10^4 of them): the unmonitored routine is called and only results
    whose accepted end point lies clearly (1e-7 x scale) outside the rectangle are handed to the
    exact monitor for the verdict.  On a correct tree it finds nothing; no threshold depends on it."""
    from plotink import plot_utils
    raw = getattr(plot_utils.clip_segment, "__verif_original__", plot_utils.clip_segment)
    found = 0
    for _ in range(n):
        if found >= 400 or not ctx.alive():
            break
        classes, segment, bounds = gen_corner_graze(rng)
        try:
            accept, out = raw([list(segment[0]), list(segment[1])], bounds)
        except Exception:
            accept, out = True, [[float("inf")] * 2] * 2       # let the monitored call report it
        if not accept:
            continue
        (ax, ay), (bx, by) = out
        slack = 1e-7 * max(abs(bounds[0][0]), abs(bounds[0][1]), abs(bounds[1][0]), abs(bounds[1][1]), abs(ax), abs(ay), abs(bx), abs(by), 1e-300)
        if bounds[0][0] - slack <= ax <= bounds[1][0] + slack and bounds[0][1] - slack <= ay <= bounds[1][1] + slack and \
                bounds[0][0] - slack <= bx <= bounds[1][0] + slack and bounds[0][1] - slack <= by <= bounds[1][1] + slack:
            continue
        found += 1
        ctx.case(classes + ["pre-screened: accepted end point clearly outside the rectangle (confirmed exactly below)"],
                 (tuple(segment[0]), tuple(segment[1]), tuple(bounds[0]), tuple(bounds[1]), "hunt"))
        one_case(ctx, mon, segment, bounds)
    ctx.extra["unconverged_exits_found_by_prescreening"] = found


def plot_utils_clip():
    from plotink import plot_utils
    return plot_utils.clip_segment


def one_case(ctx, mon, segment, bounds):
    from plotink import plot_utils
    mon.code_calls = 0
    try:
        shape = mon.code_calls = 0
        seg_arg = [list(segment[0]), list(segment[1])]
        k = int(abs(hash((segment[0][0], segment[1][1]))) % 10)
        if k == 0:          # other legal container shapes: tuples, a tuple of lists
            seg_arg = (tuple(segment[0]), tuple(segment[1]))
            ctx.tag("shape: segment given as tuples")
        elif k == 1:
            bounds = (tuple(bounds[0]), tuple(bounds[1]))
            ctx.tag("shape: rectangle given as tuples")
        elif k == 2:        # zeros written as negative zero
            seg_arg = [[-0.0 if v == 0 else v for v in pt] for pt in seg_arg]
            bounds = [[-0.0 if v == 0 else v for v in pt] for pt in bounds]
            ctx.tag("shape: zeros given as -0.0")
        del shape
        plot_utils.clip_segment(seg_arg, bounds)
    except Exception as exc:
        ctx.violation("exception", {"fn": "clip_segment", "segment": segment, "bounds": bounds,
                                    "exception": repr(exc)})


def rectangle_changes(ctx, mon):
    """A segment clipped against one rectangle, then - after exactly 2^16-1, 2^16 and 2^16+1 changes of
    rectangle during which its vertices are never used and only a handful of other vertices are seen -
    against another rectangle in which its vertices have other region codes.  (What a per-vertex memo
    invalidated by a small wrapping epoch tag gets wrong; the in-between calls go to the unmonitored
    function, only the first and the last call are judged.)"""
    from plotink import plot_utils
    from .. import longrun
    raw = longrun.raw(plot_utils.clip_segment)
    rect_a, rect_b = [[0.0, 0.0], [10.0, 10.0]], [[20.0, 20.0], [30.0, 30.0]]
    fillers = ([[0.0, 0.0], [100.0, 100.0]], [[0.0, 0.0], [101.0, 101.0]])
    for changes in (65535, 65536, 65537, 131072):
        if ctx.budget(1, 1) != 1:
            break
        mon.code_calls = 0
        plot_utils.clip_segment([[5.0, 5.0], [25.0, 25.0]], rect_a)
        for i in range(changes - 1):
            mon.code_calls = 0
            raw([[1.0 + i % 3, 1.0], [2.0, 2.0 + i % 2]], fillers[i % 2])
        mon.code_calls = 0
        ctx.case(["history: same segment, another rectangle, after exactly 2^16 +- 1 rectangle changes"],
                 ("rect-changes", changes))
        plot_utils.clip_segment([[5.0, 5.0], [25.0, 25.0]], rect_b)


def run(ctx):
    from .. import wtests
    wtests.run(ctx)
    mon = install(ctx)
    rng = ctx.rng
    from .. import core as _core
    if _core.BUDGET_SCALE == 1:
        rectangle_changes(ctx, mon)
        ctx.need("history: same segment, another rectangle, after exactly 2^16 +- 1 rectangle changes", 4)
    n = ctx.budget(45_000, 700_000)
    for _ in range(n):
        if not ctx.alive():
            break
        if rng.random() < 0.004:
            from .. import noise
            noise.burst(ctx, rng, exclude=('clip', 'limits'))
        if rng.random() < 0.005:
            from ..gen_stepper import failed_call
            failed_call(rng, plot_utils_clip(), 2)
            ctx.tag("history: after a failed call (malformed arguments)")
        classes, segment, bounds = gen_corner_graze(rng) if rng.random() < 0.3 else gen_case(rng)
        rect = ((F(bounds[0][0]), F(bounds[0][1])), (F(bounds[1][0]), F(bounds[1][1])))
        ra = region((F(segment[0][0]), F(segment[0][1])), rect)
        rb = region((F(segment[1][0]), F(segment[1][1])), rect)
        classes.append("regions %d-%d" % (ra, rb))
        ctx.case(classes, (tuple(segment[0]), tuple(segment[1]), tuple(bounds[0]), tuple(bounds[1])),
                 nontrivial=(ra != 4 or rb != 4))
        ctx.sample({"segment": segment, "bounds": bounds}, tag=classes[-2] if len(classes) > 2 else classes[0], per_tag=1)
        one_case(ctx, mon, segment, bounds)
        # history: the SAME bounds object is re-used (and changed in place) for further segments, and the
        # same segment is clipped again after the rectangle changed
        if rng.random() < 0.15:
            shared = [list(bounds[0]), list(bounds[1])]
            for step in range(rng.randint(2, 4)):
                _c2, seg2, b2 = gen_case(rng)
                k = rng.randrange(3)
                if k == 0:
                    seg_use = seg2                       # another segment, same rectangle object
                elif k == 1:
                    seg_use = segment                    # same segment, rectangle changed in place
                    axis = rng.randrange(2)
                    lo, hi = shared[0][axis], shared[1][axis]
                    span = (hi - lo) or abs(hi) or 1.0
                    if rng.random() < 0.5:
                        shared[1][axis] = hi + span * rng.choice((0.5, 1, -0.25))
                    else:
                        shared[0][axis] = lo - span * rng.choice((0.5, 1, -0.25))
                    if shared[0][axis] > shared[1][axis]:
                        shared[0][axis], shared[1][axis] = shared[1][axis], shared[0][axis]
                else:
                    seg_use = [list(segment[1]), list(segment[0])]      # the same segment reversed
                ctx.case(["history: rectangle object re-used / changed in place", "history kind %d" % k],
                         ("h", tuple(seg_use[0]), tuple(seg_use[1]), tuple(shared[0]), tuple(shared[1]), step))
                one_case(ctx, mon, seg_use, shared)
    for _ in range(ctx.budget(40_000, 300_000)):
        if not ctx.alive():
            break
        classes, segment, bounds = gen_corner_graze(rng)
        ctx.case(classes, (tuple(segment[0]), tuple(segment[1]), tuple(bounds[0]), tuple(bounds[1])))
        one_case(ctx, mon, segment, bounds)
    hunt_unconverged(ctx, mon, rng, ctx.budget(400_000, 3_000_000))
    ctx.extra["max_loop_iterations_observed"] = [mon.max_iterations]
    pairs = 0
    for a in range(9):
        for b in range(9):
            ctx.need("regions %d-%d" % (a, b), 20)
            pairs += 1
    ctx.extra["region_pairs_required"] = pairs
    for cls in ("rect:lattice", "rect:zero-width rectangle", "rect:zero-area rectangle", "rect:continuous",
                "rect:page at origin", "zero-length segment", "vertical segment", "horizontal segment",
                "collinear with an edge", "through a corner", "endpoint on a corner",
                "answer:accept", "answer:reject", "history: rectangle object re-used / changed in place", "scale:huge (1e60..1e160)", "scale:tiny (1e-170..1e-12)",
                "grazing (inside only within tolerance): either answer accepted"):
        ctx.need(cls, 100)
    ctx.need("monitor:clip_segment evaluated", 20_000)
    ctx.need("history: after a failed call (malformed arguments)", 50)
    ctx.need("shape: segment given as tuples", 1000)
    ctx.need("line aimed through a corner (decimal coordinates)", 5000)
    ctx.need("shape: rectangle given as tuples", 1000)
    ctx.need("history: after calls to other library functions", 100)
    contracts.uninstall_all()


def replay(ctx, rec):
    mon = install(ctx)
    w = rec["witness"]
    ctx.case(["replay"], None)
    one_case(ctx, mon, w["segment"], w["bounds"])
    contracts.uninstall_all()
