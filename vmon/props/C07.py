"""C07 - legacy serial primitives: one write, aligned replies, no exception on faults.

Monitors (on the REAL ebb_serial.command / ebb_serial.query, replaced on the module by a
recording wrapper so that internal callers - queryVersion, min_version, the ebb_motion
helpers - pass through it too):
  * client-boundary log: call / return / raise of every primitive invocation,
  * device-boundary log: every write / readline on the injected fake port,
  * offline checker per invocation: exactly one write with exactly the request bytes; nothing
    raised; query() returns str - the data line the Legacy2xBoard generated for THAT request
    (request-id tagged) or '' when nothing arrived; in conforming-but-delayed histories the
    board's outbound queue is empty after every call (no reply left for the next request);
    no port / no text => no event."""
import json
import logging

from .. import serialsim

LEVEL = "fault_enumeration"
THOROUGH_SHARDS = 16
RULE = ("random histories of 1..30 primitive calls (commands; OK-terminated queries QP QB QS QC QL QT QN QR; no-OK "
        "queries A I MR PI QM QG V in upper/lower case) against a conforming firmware-2.x board model; each reply "
        "line preceded by 0..100 empty reads (classes 0, 1, 2..99, 100), and faults: 101+ empty reads / silence, "
        "error lines, SerialException / SerialTimeoutException / PortNotOpenError / OSError at the write or at any "
        "read index; systematic part: every request kind x fault kind x every read index of the fault-free call; the "
        "ebb_motion / ebb_serial helpers that consume query results driven under the same faults. One evaluation = "
        "one primitive invocation checked; distinct by (history prefix, request, faults); non-trivial when a port "
        "and a text were given")
ASSUMPTIONS = ["alignment (reply belongs to its request, nothing left unread) is demanded only where the statement "
               "demands it: conforming board, each line preceded by <= 100 empty reads; after an injected error line, "
               "timeout or exception only write-once / no-raise / returns-text are checked for that call and the "
               "harness flushes the input before the next call",
               "an exception raised by a helper itself (not inside command()/query()) is logged as an observation: the "
               "statement is about the two primitives"]

OK_QUERIES = ["QP", "QB", "QS", "QC", "QL", "QT", "QN", "QR", "qp", "Qs", "QT,{x}", "QN,%s"]
NOOK_QUERIES = ["A", "I", "MR", "PI,E,0", "PI,C,1", "QM", "QG", "V", "v", "qg", "pi,B,3", "Mr", " QG"]
COMMANDS = ["SM,100,10,-10", "EM,1,1", "SP,1,100", "TP", "SL,7", "SC,4,12000", "PO,B,3,0", "PD,B,3,0", "HM,1000",
            "XM,100,5,5", "LM,85899346,10,0,85899346,-10,0", "ST,Ada", "EM,0,0", "sp,0",
            "LM,-2147483647,-2147483648,-2147483647,-2147483647,-2147483648,-2147483647,3",          # 75 bytes
            "LM,2147483647,2147483647,2147483647,2147483647,2147483647,2147483647",                  # 69 bytes
            "SM,16777215,-8388608,-8388607" + ",0" * 20,                                             # 69 bytes
            "ST," + "n" * 61,                                                                        # 64 bytes + CR
            "ST," + "n" * 62, "ST," + "x" * 126, "ST," + "y" * 200,
            "ST,{AxiDraw}", "ST,{}", "ST,{0}", "ST,%s %d", "ST,100%", "ST,{a}{", "ST,}{"]
EXCS = ("SerialException", "SerialTimeoutException", "PortNotOpenError", "OSError") + serialsim.OS_ERRNO_EXC


def classify(rec):
    return None


class Rig:
    """Fake port + board + recording wrappers on the real primitives."""

    def __init__(self, version="2.8.1", eol="\r\n", timeout=1.0, nickname=""):
        from plotink import ebb_serial
        self.mod = ebb_serial
        self.log = serialsim.EventLog()
        self.board = serialsim.Legacy2xBoard(version=version, eol=eol, nickname=nickname)
        self.plan = serialsim.FaultPlan()
        self.port = serialsim.FakePort(self.board, self.log, self.plan)
        self.port.timeout = timeout             # how the caller happened to open the port
        self.frames = []
        self.depth = 0
        self.saved = {}
        self.records = LogCapture()
        lg = logging.getLogger("plotink.ebb_serial")
        lg.addHandler(self.records)
        lg.propagate = False
        lg.setLevel(logging.DEBUG)

    def __enter__(self):
        for name in ("command", "query"):
            orig = getattr(self.mod, name)
            orig = getattr(orig, "__verif_original__", orig)
            self.saved[name] = orig
            setattr(self.mod, name, self.wrap(name, orig))
        return self

    def __exit__(self, *exc):
        for name, orig in self.saved.items():
            setattr(self.mod, name, orig)
        logging.getLogger("plotink.ebb_serial").removeHandler(self.records)
        return False

    def wrap(self, name, orig):
        rig = self

        def wrapper(port_name, cmd, *rest, **kw):
            frame = {"m": name, "port": port_name, "text": cmd, "start": rig.log.mark(), "depth": rig.depth,
                     "first_req": len(rig.board.requests)}
            rig.log.add("call", m=name, text=cmd)
            rig.depth += 1
            try:
                result = orig(port_name, cmd, *rest, **kw)
            except BaseException as exc:
                frame["raised"] = exc
                rig.log.add("raise", m=name, exc=repr(exc))
                raise
            else:
                frame["result"] = result
                rig.log.add("return", m=name, result=repr(result)[:60])
                return result
            finally:
                rig.depth -= 1
                frame["end"] = rig.log.mark()
                rig.frames.append(frame)
        wrapper.__verif_original__ = orig
        return wrapper


class LogCapture(logging.Handler):
    def __init__(self):
        super().__init__()
        self.n = 0

    def emit(self, record):
        self.n += 1


def is_nook(text):
    return text.split(",")[0].strip().lower() in serialsim.NO_OK


def check_frame(ctx, rig, frame, conforming, findings):
    """All clauses for one primitive invocation."""
    name, text = frame["m"], frame["text"]
    io = [e for e in rig.log.events[frame["start"]:frame["end"]] if e["kind"] in ("write", "read")]
    writes = [e for e in io if e["kind"] == "write"]
    ctx.count("monitor:primitive invocations checked")
    base = {"primitive": name, "text": text}
    if frame["port"] is None or text is None:
        if io:
            findings.append(dict(base, kind="I/O although no port / no text was given"))
        if "raised" in frame:
            findings.append(dict(base, kind="primitive raised", exception=repr(frame["raised"])))
        return
    if "raised" in frame:
        findings.append(dict(base, kind="primitive raised", exception=repr(frame["raised"]),
                             exc_type=type(frame["raised"]).__name__))
        return
    want = text.encode("ascii")
    if len(writes) != 1:
        findings.append(dict(base, kind="request not written exactly once",
                             writes=[w["data"].decode("latin-1") for w in writes]))
    elif writes[0]["data"] != want:
        findings.append(dict(base, kind="wrong bytes on the wire", wrote=writes[0]["data"].decode("latin-1")))
    if name == "query":
        res = frame["result"]
        if not isinstance(res, str):
            findings.append(dict(base, kind="query did not return text", returned=repr(res)[:80]))
            return
        if conforming:
            ctx.count("monitor:conforming query results attributed")
            req = rig.board.requests[frame["first_req"]] if len(rig.board.requests) > frame["first_req"] else None
            data = rig.board.data_of.get(req["id"]) if req else None
            if data is None:
                findings.append(dict(base, kind="harness: request has no data line"))
            elif res != data + rig.board.eol:
                findings.append(dict(base, kind="query returned a line that does not belong to its request",
                                     returned=res, expected=data + rig.board.eol))
    if conforming:
        reads = [e for e in io if e["kind"] == "read"]
        trailing = 0
        for e in reversed(reads):
            if e.get("data") == b"":
                trailing += 1
            else:
                break
        if trailing >= 100 and any(e.get("data") for e in reads):
            # the complete reply had arrived, yet the primitive went on reading until its retry
            # budget ran out: it waited for a line the documented reply does not contain
            findings.append(dict(base, kind="kept reading for a full timeout after the complete reply had arrived",
                                 trailing_empty_reads=trailing))
    if conforming and rig.board.out:
        findings.append(dict(base, kind="reply left unread after the call (next request would be misaligned)",
                             pending=[b.decode("latin-1") for b in rig.board.out]))


def delay_faults(rng, text, is_query):
    """Conforming delays: each line preceded by 0..100 empty reads. Returns (faults, classes)."""
    def k():
        c = rng.randrange(6)
        return 0 if c == 0 else 1 if c == 1 else 100 if c == 2 else 99 if c == 3 else rng.randint(2, 98)
    k1 = k()
    faults, classes = [], []
    if k1:
        faults.append({"op": "read", "at": 0, "kind": "empty", "count": k1})
    classes.append("delay before data/OK line:%s" % ("0" if k1 == 0 else "1" if k1 == 1 else "100" if k1 == 100 else "2..99"))
    if is_query and not is_nook(text):
        k2 = k()
        if k2:
            faults.append({"op": "read", "at": k1 + 1, "kind": "empty", "count": k2})
        classes.append("delay before trailing OK:%s" % ("0" if k2 == 0 else "1" if k2 == 1 else "100" if k2 == 100 else "2..99"))
    return faults, classes


def bad_fault(rng, n_reads_hint):
    c = rng.randrange(7)
    at = rng.randrange(max(1, n_reads_hint))
    if c == 0:
        return {"op": "write", "at": 0, "kind": "raise", "exc": rng.choice(EXCS)}, "write raises"
    if c == 1:
        return {"op": "read", "at": at, "kind": "raise", "exc": rng.choice(EXCS)}, "read raises"
    if c == 2:
        return {"op": "read", "at": 0, "kind": "silence"}, "silent (timeout)"
    if c == 3:
        return {"op": "read", "at": 0, "kind": "empty", "count": rng.choice([101, 102, 150])}, "101+ empty reads"
    if c == 4:
        return {"op": "read", "at": at, "kind": "line", "data": "!8 Err: Unknown command 'XX:0x5858'\r\n"}, "error line"
    if c == 5:
        return {"op": "read", "at": at, "kind": "silence"}, "goes silent mid-reply"
    return {"op": "read", "at": 0, "kind": "empty", "count": 1}, "one empty read first"


def run_calls(ctx, classes, scen):
    """scen: {"eol", "version", "calls": [{"p": primitive|helper, "text"/"args", "faults", "conforming"}]}"""
    findings = []
    with Rig(version=scen.get("version", "2.8.1"), eol=scen.get("eol", "\r\n"), timeout=scen.get("timeout", 1.0),
             nickname=scen.get("nickname", "")) as rig:
        from plotink import ebb_motion, ebb_serial
        for i, call in enumerate(scen["calls"]):
            rig.frames = []
            rig.plan.faults = list(call.get("faults") or [])
            port = None if call.get("no_port") else rig.port
            helper_exc = None
            rig.plan.arm()

            def invoke(call=call, port=port):
                if call["p"] in ("command", "query"):
                    getattr(ebb_serial, call["p"])(port, call["text"], *([False] if call.get("quiet") else []))
                else:
                    mod = ebb_serial if call["p"].startswith("serial.") else ebb_motion
                    getattr(mod, call["p"].split(".")[-1])(port, *call.get("args", []))
            try:
                if scen.get("headroom"):
                    at_depth(scen["headroom"], invoke)
                else:
                    invoke()
            except Exception as exc:        # observed below
                helper_exc = exc
            finally:
                rig.plan.disarm()
            conforming = bool(call.get("conforming"))
            for frame in rig.frames:
                per = []
                check_frame(ctx, rig, frame, conforming and call["p"] in ("command", "query"), per)
                findings += [dict(f, call=i) for f in per]
            if helper_exc is not None and not any("raised" in f for f in rig.frames):
                if call["p"] in ("command", "query"):
                    findings.append({"kind": "primitive raised", "call": i, "primitive": call["p"],
                                     "text": call.get("text"), "exception": repr(helper_exc)})
                else:
                    ctx.count("observed:helper %s raised %s by itself (not a primitive)" %
                              (call["p"], type(helper_exc).__name__))
            ctx.case(classes + call.get("classes", []) + ["primitive:" + call["p"] if call["p"] in ("command", "query")
                                                          else "helper:" + call["p"]],
                     (i, json.dumps(scen["calls"][:i + 1], sort_keys=True, default=repr)),
                     nontrivial=not call.get("no_port") and call.get("text", "x") is not None)
            if not conforming:
                rig.board.out.clear()       # the application flushes after a failed exchange
        ctx.count("events:total", len(rig.log.events))
        ctx.count("events:reads", sum(1 for e in rig.log.events if e["kind"] == "read"))
        ctx.count("events:writes", sum(1 for e in rig.log.events if e["kind"] == "write"))
        ctx.count("events:library log records", rig.records.n)
        tail = rig.log.dump(30)
    for f in findings[:4]:
        if f["kind"].startswith("harness"):
            ctx.oracle_fault(f["kind"], {"scenario": scen, "finding": f})
        else:
            ctx.violation(f["kind"], {"scenario": scen, "finding": f, "log_tail": tail})
    return findings


def gen_request(rng):
    c = rng.random()
    if c < 0.35:
        text = rng.choice(COMMANDS) + "\r"
        return "command", text, "request:command" if len(text) <= 64 else "request:command longer than 64 bytes"
    if c < 0.7:
        return "query", rng.choice(OK_QUERIES) + "\r", "request:OK-terminated query"
    return "query", rng.choice(NOOK_QUERIES) + "\r", "request:no-OK query"


def at_depth(headroom, fn):
    """Call fn() from so deep in the call stack that only `headroom` interpreter frames are left below the
    recursion limit - an application calls the library from inside its own (GUI, plug-in, recursive
    document walk) stack, not from the top of a test script."""
    import sys
    depth = 0
    frame = sys._getframe()
    while frame is not None:
        depth += 1
        frame = frame.f_back
    n = sys.getrecursionlimit() - depth - headroom

    def descend(k):
        if k <= 0:
            return fn()
        return descend(k - 1)
    return descend(n)


def deep_stack(ctx, rng):
    """Conforming, much-delayed replies (dozens of empty reads before each line) requested by a caller
    that has only 60-120 frames of stack left."""
    calls = []
    for _ in range(rng.randint(2, 5)):
        prim, text, cls = gen_request(rng)
        k = rng.choice((40, 60, 80, 99, 100))
        faults = [{"op": "read", "at": 0, "kind": "empty", "count": k}]
        if prim == "query" and not is_nook(text) and rng.random() < 0.6:
            faults.append({"op": "read", "at": k + 1, "kind": "empty", "count": rng.choice((30, 70, 100))})
        calls.append({"p": prim, "text": text, "classes": [cls], "faults": faults, "conforming": True,
                      "quiet": rng.random() < 0.3})
    scen = {"eol": "\r\n", "calls": calls, "timeout": 1.0, "headroom": rng.choice((60, 80, 120))}
    run_calls(ctx, ["caller deep in its call stack (60-120 frames left), long-delayed conforming replies"], scen)


def history(ctx, rng, with_faults):
    calls = []
    for _ in range(rng.randint(1, 30)):
        prim, text, cls = gen_request(rng)
        call = {"p": prim, "text": text, "classes": [cls], "quiet": rng.random() < 0.3}
        if with_faults and rng.random() < 0.25:
            fault, label = bad_fault(rng, 3)
            call["faults"] = [fault]
            call["classes"] = [cls, "fault:" + label]
            call["conforming"] = label == "one empty read first"
        else:
            call["faults"], dcls = delay_faults(rng, text, prim == "query")
            call["classes"] = [cls] + dcls
            call["conforming"] = True
        calls.append(call)
    scen = {"eol": rng.choice(["\r\n", "\r\n", "\n", "\n\r"]), "calls": calls,
            "timeout": rng.choice([1.0, 1.0, None, 0, 0.05, 2.0, 5, 30.0, 120])}
    if rng.random() < 0.3:
        # a board whose user-set name is itself a request name: the data line of QT then reads exactly like
        # the request (or like another request, an OK, an error header) - data is data
        scen["nickname"] = rng.choice(["QT", "qt", "OK", "QP", "V", "Err", "!8", "QT,1"])
        calls.insert(rng.randrange(len(calls) + 1), {"p": "query", "text": rng.choice(["QT\r", "qt\r", "QT \r"]),
                                                      "classes": ["request:OK-terminated query",
                                                                  "data line that reads like a request / reply keyword"],
                                                      "faults": [], "conforming": True})
    ctx.sample({"eol": scen["eol"], "calls": [{k: v for k, v in c.items() if k != "classes"} for c in calls[:3]]},
               tag="history with faults" if with_faults else "delayed conforming history", per_tag=1)
    run_calls(ctx, ["history with faults" if with_faults else "delayed conforming history",
                    "port opened with timeout %s" % ("None" if scen["timeout"] is None else "<= 1 s" if scen["timeout"] <= 1
                                                      else "> 1 s")], scen)


def systematic(ctx, rng):
    """request kind x fault kind x read index."""
    seen = ctx.extra.setdefault("_triples", set())
    for prim, text in ([("command", c + "\r") for c in COMMANDS[:4]] + [("query", q + "\r") for q in OK_QUERIES[:5]] +
                       [("query", q + "\r") for q in NOOK_QUERIES[:8]]):
        n_reads = 1 if prim == "command" or is_nook(text) else 2
        faults = [({"op": "write", "at": 0, "kind": "raise", "exc": e}, "write raises") for e in EXCS]
        for at in range(n_reads + 1):
            faults += [({"op": "read", "at": at, "kind": "raise", "exc": e}, "read raises") for e in EXCS]
            faults += [({"op": "read", "at": at, "kind": "silence"}, "silent (timeout)" if at == 0 else "goes silent mid-reply"),
                       ({"op": "read", "at": at, "kind": "line", "data": "!8 Err: bad\r\n"}, "error line"),
                       ({"op": "read", "at": at, "kind": "empty", "count": 101}, "101+ empty reads"),
                       ({"op": "read", "at": at, "kind": "empty", "count": 1}, "one empty read first"),
                       ({"op": "read", "at": at, "kind": "empty", "count": 100}, "100 empty reads first")]
        for fault, label in faults:
            conforming = label in ("one empty read first", "100 empty reads first") and fault["at"] < n_reads
            follow = {"p": "query", "text": "QN\r", "faults": [], "conforming": True, "classes": ["follow-up request"]}
            scen = {"calls": [{"p": prim, "text": text, "faults": [fault], "conforming": conforming,
                               "classes": ["fault:" + label]}, follow],
                    "timeout": rng.choice([1.0, None, 0, 0.05, 2.0, 5, 30.0])}
            run_calls(ctx, ["systematic"], scen)
            seen.add("%s|%s|%s@%d" % (text.strip(), label, fault["op"], fault["at"]))


HELPERS = [("QueryPenUp", []), ("QueryPRGButton", []), ("queryEBBLV", []), ("query_steps", []), ("queryVoltage", []),
           ("query_enable_motors", []), ("serial.min_version", ["2.5.5"]), ("serial.query_nickname", []),
           ("serial.queryVersion", []), ("servo_timeout", [60000]), ("sendPenUp", [100]), ("doTimedPause", [1600])]


def helpers(ctx, rng):
    name, args = rng.choice(HELPERS)
    call = {"p": name, "args": args, "classes": []}
    if rng.random() < 0.6:
        fault, label = bad_fault(rng, 4)
        call["faults"] = [fault]
        call["classes"] = ["fault:" + label]
    scen = {"calls": [call, {"p": "query", "text": "QN\r", "faults": [], "conforming": False, "classes": []}]}
    run_calls(ctx, ["helpers under faults"], scen)


def no_port(ctx, rng):
    prim, text, _ = gen_request(rng)
    scen = {"calls": [{"p": prim, "text": text, "no_port": True, "classes": ["no port"]},
                      {"p": prim, "text": None, "classes": ["no text"]}]}
    run_calls(ctx, ["no port / no text"], scen)


def run(ctx):
    rng = ctx.rng
    logging.getLogger("plotink.ebb_serial").addHandler(logging.NullHandler())
    for _rep in range(1 if ctx.tier == "quick" else 3):
        systematic(ctx, rng)
    for _ in range(ctx.budget(1500, 12000)):
        if not ctx.alive():
            break
        if rng.random() < 0.06:
            from .. import noise
            noise.burst(ctx, rng, exclude=('versions', 'discovery'))
        history(ctx, rng, with_faults=False)
        history(ctx, rng, with_faults=True)
    for _ in range(ctx.budget(4000, 40000)):
        helpers(ctx, rng)
    for _ in range(ctx.budget(200, 2000)):
        no_port(ctx, rng)
    for _ in range(ctx.budget(150, 1500)):
        deep_stack(ctx, rng)
    ctx.need("caller deep in its call stack (60-120 frames left), long-delayed conforming replies", 300)
    seen = ctx.extra.pop("_triples", set())
    ctx.extra["distinct_request_fault_position_triples"] = len(seen)
    ctx.extra["request_fault_position_examples"] = sorted(seen)[:10]
    for cls in ("port opened with timeout None", "port opened with timeout <= 1 s", "port opened with timeout > 1 s",
                "delayed conforming history", "history with faults", "helpers under faults", "no port", "no text",
                "request:command", "request:command longer than 64 bytes", "request:OK-terminated query", "request:no-OK query",
                "delay before data/OK line:0", "delay before data/OK line:1", "delay before data/OK line:100",
                "delay before data/OK line:2..99", "delay before trailing OK:0", "delay before trailing OK:100",
                "delay before trailing OK:2..99", "fault:write raises", "fault:read raises", "fault:silent (timeout)",
                "fault:101+ empty reads", "fault:error line", "fault:goes silent mid-reply", "fault:one empty read first"):
        ctx.need(cls, 40)
    ctx.need("systematic", 300)
    ctx.need("data line that reads like a request / reply keyword", 200)
    ctx.need("history: after calls to other library functions", 50)
    ctx.need("monitor:primitive invocations checked", 10000)
    ctx.need("monitor:conforming query results attributed", 2000)


def replay(ctx, rec):
    run_calls(ctx, ["replay"], rec["witness"]["scenario"])
