"""C11 - viewBox scaling follows the SVG 1.1 preserveAspectRatio rules.

Monitor: icontract post-condition on the real plot_utils.vb_scale; the oracle is the
rule of SVG 1.1 section 7.8 written directly in exact rationals and compared through the
mapping x -> (x + o_x) * s_x on the viewBox corners."""
from fractions import Fraction

from .. import contracts

LEVEL = "exploration"
THOROUGH_SHARDS = 8
RULE = ("seeded generator over (min-x, min-y, width, height) x (doc width, doc height) x {none + 9 "
        "aligns} x {meet, slice, omitted} x {defer or not} x case / separator variants x absent "
        "attribute, with the document aspect ratio forced below / exactly equal to / above the "
        "viewBox aspect ratio (19 x 3 = 57 cells, each must be observed), plus malformed classes "
        "(None, empty, < 4 numbers, non-numeric tokens, non-positive viewBox or page size); distinct "
        "by full argument tuple; non-trivial when the viewBox is valid")
ASSUMPTIONS = ["SVG 1.1 section 7.8: none -> (W/w, H/h); else s = min (meet) or max (slice) of the two "
               "ratios; translation 0 / (W - w*s)/2 / (W - w*s) per axis",
               "comparison relative 1e-9 of the coordinate scale (the result is float arithmetic)"]

ALIGNS = ["xMinYMin", "xMidYMin", "xMaxYMin", "xMinYMid", "xMidYMid", "xMaxYMid",
          "xMinYMax", "xMidYMax", "xMaxYMax"]


def classify(rec):
    return None


def expected(vb, align, mos, doc_w, doc_h):
    """(sx, sy, tx, ty): viewBox point (x,y) -> ((x-minx)*sx + tx, (y-miny)*sy + ty)."""
    min_x, min_y, w, h = vb
    rx, ry = Fraction(doc_w) / w, Fraction(doc_h) / h
    if align == "none":
        return rx, ry, Fraction(0), Fraction(0)
    s = min(rx, ry) if mos == "meet" else max(rx, ry)
    a = align.lower()
    fx = {"xmin": 0, "xmid": Fraction(1, 2), "xmax": 1}[a[:4]]
    fy = {"ymin": 0, "ymid": Fraction(1, 2), "ymax": 1}[a[4:]]
    return s, s, (Fraction(doc_w) - w * s) * fx, (Fraction(doc_h) - h * s) * fy


class Monitor:
    def __init__(self, ctx):
        self.ctx = ctx
        self.case = None       # set by the driver: dict with the semantic description
        self.prev = None       # arguments of the previous monitored call (history witness)

    def post(self, v_b, p_a_r, doc_width, doc_height, result):
        ctx, case = self.ctx, self.case
        if case is None or case["args"] != [v_b, p_a_r, doc_width, doc_height]:
            ctx.count("skipped:call not from the driver")
            return True
        ctx.count("monitor:vb_scale evaluated")
        witness = dict(case, got=result)
        if case["identity"]:
            if tuple(result) != (1, 1, 0, 0):
                ctx.violation("identity expected for missing/malformed input", witness)
            return True
        vb = [Fraction(v) for v in case["vb"]]
        sx, sy, tx, ty = expected(vb, case["align"], case["mos"], doc_width, doc_height)
        try:
            g_sx, g_sy, g_ox, g_oy = (Fraction(v) for v in result)
        except (TypeError, ValueError):
            ctx.violation("malformed result", witness)
            return True
        bad = None
        for axis, (m, ext, s_want, t_want, s_got, o_got, page) in {
                "x": (vb[0], vb[2], sx, tx, g_sx, g_ox, Fraction(doc_width)),
                "y": (vb[1], vb[3], sy, ty, g_sy, g_oy, Fraction(doc_height))}.items():
            scale_mag = max(abs(m) * s_want, ext * s_want, page, abs(t_want))
            for corner in (m, m + ext):
                want = (corner - m) * s_want + t_want
                got = (corner + o_got) * s_got
                if abs(got - want) > Fraction(1, 10 ** 9) * scale_mag:
                    bad = {"axis": axis, "corner": float(corner), "mapped_to": float(got),
                           "svg_rule": float(want)}
        if bad:
            witness.update(bad)
            ctx.violation("viewBox corner mapped to the wrong place", witness)
        return True


def install(ctx):
    from plotink import plot_utils
    mon = Monitor(ctx)
    contracts.install(plot_utils, "vb_scale", post=mon.post, ctx=ctx)
    return mon


def fnum(rng, x):
    """Text form of a number for the viewBox attribute (every spelling float() and SVG accept)."""
    if rng.random() < 0.25:
        # hand-written spellings: no leading zero, explicit plus, trailing dot, exponent forms
        r = repr(float(x))
        alts = []
        if "e" not in r and "inf" not in r:
            ip, _, fp = r.lstrip("-").partition(".")
            sign = "-" if x < 0 else ""
            if ip == "0" and fp not in ("", "0"):
                alts += [sign + "." + fp, (sign or "+") + "." + fp]
            if fp == "0":
                alts += [sign + ip + ".", sign + ip + "e0", sign + ip + ".0E+0"]
            if x > 0:
                alts.append("+" + r)
            if x != 0 and abs(x) < 1e15:
                alts.append("%se-1" % repr(float(x) * 10) if float("%se-1" % repr(float(x) * 10)) == x else r)
        alts = [a for a in alts if _same(a, x)]
        if alts:
            return rng.choice(alts)
    c = rng.randrange(4)
    if c == 0 and x == int(x):
        return str(int(x))
    if c == 1:
        return repr(float(x))
    if c == 2:
        return "%.6g" % x if float("%.6g" % x) == x else repr(float(x))
    return "%e" % x if float("%e" % x) == x else repr(float(x))


def _same(text, x):
    try:
        return float(text) == x
    except ValueError:
        return False


def vary_case(rng, s):
    c = rng.randrange(4)
    if c == 0:
        return s
    if c == 1:
        return s.lower()
    if c == 2:
        return s.upper()
    return "".join(ch.upper() if rng.random() < 0.5 else ch.lower() for ch in s)


def gen_valid(rng):
    """A valid (vb numbers, vb text, par text|None, align, mos, W, H, cell label)."""
    scale = rng.choice((1.0, 100.0, 1e-3, 1e4))
    w = rng.choice((1.0, 2.0, 10.0, 297.0, rng.uniform(0.1, 1000.0), float(rng.randint(1, 5000)))) * scale
    h = rng.choice((1.0, 3.0, 10.0, 210.0, rng.uniform(0.1, 1000.0), float(rng.randint(1, 5000)))) * scale
    min_x = rng.choice((0.0, 0.0, -w / 2, rng.uniform(-1000, 1000) * scale, float(rng.randint(-500, 500))))
    min_y = rng.choice((0.0, 0.0, -h / 2, rng.uniform(-1000, 1000) * scale, float(rng.randint(-500, 500))))
    doc_w = rng.choice((96.0, 793.7007874, 1056, rng.uniform(1, 5000), rng.randint(1, 5000)))
    rel = rng.choice(("ar_doc<ar_vb", "ar_doc==ar_vb", "ar_doc>ar_vb"))
    if rel == "ar_doc==ar_vb":
        # exact equality of the two float aspect ratios as the code computes them
        k = rng.choice((1, 2, 3, 0.5, 4, 10))
        doc_w, doc_h = w * k, h * k
        if (doc_h / doc_w) != (h / w):
            doc_w, doc_h = w, h
    elif rel == "ar_doc<ar_vb":
        doc_h = doc_w * (h / w) * (rng.uniform(0.05, 0.999) if rng.random() < 0.8 else 1 - 10 ** rng.uniform(-7, -3))
    else:
        doc_h = doc_w * (h / w) * (rng.uniform(1.001, 20) if rng.random() < 0.8 else 1 + 10 ** rng.uniform(-7, -3))
    if isinstance(doc_w, int) and rng.random() < 0.5 and rel != "ar_doc==ar_vb":
        doc_h = max(1, int(doc_h))
    ar_doc, ar_vb = Fraction(doc_h) / Fraction(doc_w), Fraction(h) / Fraction(w)
    rel = "ar_doc<ar_vb" if ar_doc < ar_vb else ("ar_doc==ar_vb" if ar_doc == ar_vb else "ar_doc>ar_vb")
    near = ar_doc != ar_vb and abs(ar_doc / ar_vb - 1) < Fraction(1, 1000)
    seps = (" ", ",", ", ", "  ", " , ", "\t", "\n ", " ,")
    nums = [fnum(rng, v) for v in (min_x, min_y, w, h)]
    if rng.random() < 0.35:
        # SVG 1.1: the four numbers are "separated by whitespace and/or a comma" - per gap, so
        # "0,0 100,100" (pair notation) and "0 0 100,50" are as valid as one style throughout
        gaps = [rng.choice(seps) for _ in range(3)]
        vb_text = nums[0] + gaps[0] + nums[1] + gaps[1] + nums[2] + gaps[2] + nums[3]
    else:
        vb_text = rng.choice(seps).join(nums)
    if rng.random() < 0.3:
        vb_text = rng.choice((" ", "\n", "  ")) + vb_text + rng.choice((" ", "\t", ""))
    c = rng.random()
    if c < 0.08:
        par, align, mos = None, "xMidYMid", "meet"
        cell = "absent"
    elif c < 0.12:
        par, align, mos = rng.choice(("", " ")), "xMidYMid", "meet"
        cell = "absent"
    else:
        align = rng.choice(ALIGNS + ["none"])
        mos_given = rng.choice(("meet", "slice", None))
        mos = mos_given or "meet"
        parts = []
        if rng.random() < 0.2:
            parts.append(vary_case(rng, "defer"))
        parts.append(vary_case(rng, align))
        if mos_given:
            parts.append(vary_case(rng, mos_given))
        par = rng.choice((" ", "  ", "\t", " \n")).join(parts)
        if rng.random() < 0.2:
            par = " " + par + " "
        cell = align if align == "none" else "%s %s" % (align, mos)
    return (min_x, min_y, w, h), vb_text, par, align, mos, doc_w, doc_h, "%s | %s" % (cell, rel), near


def gen_malformed(rng):
    c = rng.randrange(11)
    good = "0 0 100 50"
    if c >= 9:
        # TWO invalid things at once (a sign can cancel in a ratio): non-positive viewBox size and
        # non-positive page size on the same or on different axes
        w, h = rng.choice(((-100, 50), (100, -50), (-100, -50), (-7.5, 3), (0, 5)))
        dw = rng.choice((-200, 200)) if w < 0 else 200
        dh = rng.choice((-100, 100)) if h < 0 else 100
        if dw > 0 and dh > 0:
            dw = -dw if w < 0 else dw
            dh = -dh if h < 0 else dh
        return "malformed:viewBox size and page size both non-positive", "0 0 %s %s" % (w, h), dw, dh
    if c == 0:
        return "malformed:None", None, 100, 100
    if c == 1:
        return "malformed:empty", rng.choice(("", " ", "\n")), 100, 100
    if c == 2:
        return "malformed:fewer than 4 numbers", rng.choice(("0", "0 0", "0 0 100", "0,0,100", "1e3")), 100, 100
    if c == 3:
        return "malformed:non-numeric token", rng.choice(("0 0 abc 10", "a b c d", "0 0 100 5o", "0 0 100px 50px",
                                                          "0 0 - 10", "none none none none", "0 0 1e 5",
                                                          "0;0;100;50", "0 0 100 50%", "x 0 100 50")), 100, 100
    if c == 4:
        return "malformed:zero or negative viewBox size", rng.choice(("0 0 0 10", "0 0 10 0", "0 0 -5 10", "0 0 10 -5", "0 0 0 0", "5 5 -0.0 3")), 100, 100
    if c == 5:
        return "malformed:non-positive page size", good, rng.choice((0, -1, -100.5, 0.0)), rng.choice((100, 0, -3))
    if c == 6:
        return "malformed:non-positive page size", good, 100, rng.choice((0, -1, -0.0))
    if c == 7:
        return "malformed:non-numeric token", rng.choice(("1 2 3 four", "0 0 1.2.3 4", "0 0 ++1 4")), 640, 480
    return "malformed:fewer than 4 numbers", rng.choice((",", ", ,", "10 10 ,")), 100, 100


def one_case(ctx, mon, desc):
    from plotink import plot_utils
    mon.case = desc
    try:
        plot_utils.vb_scale(*desc["args"])
    except Exception as exc:
        ctx.violation("exception", dict(desc, exception=repr(exc)))
    mon.case = None


def run(ctx):
    mon = install(ctx)
    rng = ctx.rng
    from .. import longrun
    _early = longrun.Early()
    n = ctx.budget(50_000, 1_000_000)
    done = 0
    while done < n and ctx.alive():
        if rng.random() < 0.004:
            from .. import noise
            noise.burst(ctx, rng, exclude=('viewbox',))
        if rng.random() < 0.005:
            from ..gen_stepper import failed_call
            from plotink import plot_utils as _pu
            failed_call(rng, _pu.vb_scale, 4)
            ctx.tag("history: after a failed call (malformed arguments)")
        if rng.random() < 0.12:
            cls, vb_text, doc_w, doc_h = gen_malformed(rng)
            par = rng.choice((None, "xMinYMin slice", "none"))
            desc = {"args": [vb_text, par, doc_w, doc_h], "identity": True, "class": cls}
            ctx.case([cls], (vb_text, par, doc_w, doc_h), nontrivial=False)
        else:
            vb, vb_text, par, align, mos, doc_w, doc_h, cell, near = gen_valid(rng)
            desc = {"args": [vb_text, par, doc_w, doc_h], "identity": False, "class": cell,
                    "vb": list(vb), "align": align, "mos": mos}
            classes = [cell]
            if par is not None and "defer" in par.lower():
                classes.append("defer")
            if "," in vb_text:
                classes.append("comma separators")
                gaps_with_comma = vb_text.count(",")
                if 0 < gaps_with_comma < 3:
                    classes.append("separators: comma in some gaps, white space only in others")
            if near:
                classes.append("aspect ratios differ by less than 1e-3 (but differ)")
            toks = vb_text.replace(",", " ").split()
            if any(t.lstrip("+-").startswith(".") for t in toks):
                classes.append("number without a leading zero")
            if any(t.startswith("+") for t in toks):
                classes.append("number with an explicit plus")
            ctx.case(classes, (vb_text, par, doc_w, doc_h))
        ctx.sample({"viewBox": vb_text, "preserveAspectRatio": desc["args"][1], "doc": [doc_w, doc_h],
                    "class": desc["class"]}, tag=desc["class"].split(" | ")[0], per_tag=1)
        if mon.prev is not None:
            desc["previous_call"] = mon.prev
        one_case(ctx, mon, desc)
        mon.prev = list(desc["args"])
        done += 1
        if not desc["identity"]:
            _early.remember(dict(desc))
        # history: the next call shares part of its arguments with this one (same viewBox on
        # another page, same page and alignment for another viewBox, same everything but the
        # alignment) - a result must depend on the arguments of THIS call only
        if not desc["identity"] and rng.random() < 0.25:
            vb2, vb_text2, par2, align2, mos2, doc_w2, doc_h2, _cell2, _near2 = gen_valid(rng)
            keep = rng.randrange(3)
            if keep == 0:       # same viewBox text and alignment, another page
                vb2, vb_text2, par2, align2, mos2 = vb, vb_text, par, align, mos
            elif keep == 1:     # same page and alignment, another viewBox
                par2, align2, mos2, doc_w2, doc_h2 = par, align, mos, doc_w, doc_h
            else:               # same viewBox and page, another alignment
                vb2, vb_text2, doc_w2, doc_h2 = vb, vb_text, doc_w, doc_h
            d2 = {"args": [vb_text2, par2, doc_w2, doc_h2], "identity": False, "class": "history",
                  "vb": list(vb2), "align": align2, "mos": mos2, "previous_call": mon.prev}
            ctx.case(["history: related arguments after a previous call", "history keeps %d" % keep],
                     (vb_text2, par2, doc_w2, doc_h2, "after", vb_text, par, doc_w, doc_h))
            one_case(ctx, mon, d2)
            mon.prev = list(d2["args"])
    # long memory: hundreds of DISTINCT attribute values (most of them values SVG does not define, as real
    # documents contain) and viewBoxes, then the first valid cases of the run once more
    from plotink import plot_utils as _pu2

    def _again(d):
        d = dict(d)
        d.pop("previous_call", None)
        ctx.case(["history: asked again after many other distinct requests (replay)"], None)
        one_case(ctx, mon, d)
    longrun.churn_then_replay(
        ctx, _pu2, "vb_scale",
        lambda k: ("%d 0 %d 50" % (k % 7, 100 + k), ("bogus%d slice" % k) if k % 3 else ("xMidYMid  meet%d" % k), 200 + k % 5, 100),
        _early, _again, n_quick=3_000, n_thorough=20_000)
    ctx.need("history: asked again after many other distinct requests", 30)
    cells = 0
    for align in ALIGNS:
        for mos in ("meet", "slice"):
            for rel in ("ar_doc<ar_vb", "ar_doc==ar_vb", "ar_doc>ar_vb"):
                ctx.need("%s %s | %s" % (align, mos, rel), 40)
                cells += 1
    for rel in ("ar_doc<ar_vb", "ar_doc==ar_vb", "ar_doc>ar_vb"):
        ctx.need("none | %s" % rel, 40)
        ctx.need("absent | %s" % rel, 40)
        cells += 1
    ctx.extra["alignment_cells_required"] = cells
    for m in ("None", "empty", "fewer than 4 numbers", "non-numeric token",
              "zero or negative viewBox size", "non-positive page size",
              "viewBox size and page size both non-positive"):
        ctx.need("malformed:" + m, 50)
    ctx.need("defer", 300)
    ctx.need("history: after a failed call (malformed arguments)", 50)
    ctx.need("history: related arguments after a previous call", 1000)
    ctx.need("aspect ratios differ by less than 1e-3 (but differ)", 300)
    ctx.need("number without a leading zero", 100)
    ctx.need("separators: comma in some gaps, white space only in others", 1000)
    ctx.need("number with an explicit plus", 100)
    ctx.need("monitor:vb_scale evaluated", 20_000)
    ctx.need("history: after calls to other library functions", 100)
    contracts.uninstall_all()


def replay(ctx, rec):
    mon = install(ctx)
    w = rec["witness"]
    desc = {"args": w["args"], "identity": w["identity"], "class": w.get("class")}
    if not w["identity"]:
        desc.update(vb=w["vb"], align=w["align"], mos=w["mos"])
    ctx.case(["replay"], None)
    if w.get("previous_call"):
        from plotink import plot_utils
        try:
            plot_utils.vb_scale(*w["previous_call"])      # the history the witness may depend on
        except Exception:
            pass
    one_case(ctx, mon, desc)
    contracts.uninstall_all()
