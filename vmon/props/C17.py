"""C17 - reported peak T3 rate brackets the true peak within one jerk increment.

Monitor: icontract post-condition on the real ebb_calc.max_rate_t3, comparing with the
exact per-tick rates of the integer recurrence."""
from .. import contracts, gen_stepper as G
from ..oracles import stepper as S

LEVEL = "exploration"
THOROUGH_SHARDS = 16
RULE = ("seeded stratified generator over (T, rate, accel, jerk) in the firmware-valid domain, "
        "stratified by where the rate-parabola vertex falls (before tick 1, in [1,1.5], inside, in "
        "[T-1.5,T], beyond T, exactly on an integer / half-integer), jerk = 0, T = 1,2,3; distinct by "
        "argument tuple; non-trivial when T >= 2")
ASSUMPTIONS = [
    "the bracket is decided for valid moves and for moves whose per-tick peak exceeds 2^31-1 by up to a factor of "
    "eight (acceleration register in int32 range): the helper exists to expose exactly those",
    "true peak = max |rate_k| over ticks 1..T of the integer recurrence; the rate is a parabola in k, "
    "so the ends and the two integer neighbours of the vertex suffice (self-checked against a brute "
    "force over all ticks for T <= 3000 in every run)",
]


def classify(rec):
    return None


class Monitor:
    def __init__(self, ctx):
        self.ctx = ctx

    def post(self, time, rate, accel, jerk, result):
        ctx = self.ctx
        if not all(type(v) is int for v in (time, rate, accel, jerk)):
            ctx.count("skipped:non-integer input")
            return True
        if time < 1:
            ctx.count("skipped:outside domain")
            return True
        if abs(rate) > S.RMAX or not S.t3_in_domain(rate, accel, jerk, time):
            # a move that breaks the rate limit is exactly what the helper is there to expose ("a move the
            # helper reports as within the limit exceeds it by at most one jerk increment"): the bracket is
            # decided for those as well, as long as the numbers stay within a few times the limit and the
            # acceleration register stays in range (beyond that the recurrence itself is not defined)
            a_end = accel + time * jerk
            if S.t3_peak(rate, accel, jerk, time) > 8 * S.RMAX or abs(rate) > 8 * S.RMAX \
                    or not (-S.I32 <= accel < S.I32 and -S.I32 <= a_end < S.I32):
                ctx.count("skipped:outside domain")
                return True
            ctx.tag("peak above the 2^31-1 limit (the move the helper must expose)")
        ctx.count("monitor:max_rate_t3 evaluated")
        r1 = abs(S.t3_rate(rate, accel, jerk, 1))
        r_t = abs(S.t3_rate(rate, accel, jerk, time))
        peak = S.t3_peak(rate, accel, jerk, time)
        why = None
        if not isinstance(result, int) or isinstance(result, bool):
            why = "not an integer"
        elif result < r1:
            why = "below |rate| at the first tick"
        elif result < r_t:
            why = "below |rate| at the last tick"
        elif result > peak:
            why = "exceeds the largest per-tick |rate|"
        elif peak - result > abs(jerk):
            why = "short of the true peak by more than |jerk|"
        if peak - (result if isinstance(result, int) else 0) > 0:
            ctx.tag("reported value below true peak (within slack)")
        if why:
            ctx.violation(why, {"fn": "max_rate_t3", "args": [time, rate, accel, jerk],
                                "got": result, "first": r1, "last": r_t, "true_peak": peak,
                                "jerk": jerk})
        return True


def install(ctx):
    from plotink import ebb_calc
    mon = Monitor(ctx)
    contracts.install(ebb_calc, "max_rate_t3", post=mon.post, ctx=ctx)
    return mon


def one_case(ctx, time, rate, accel, jerk):
    from plotink import ebb_calc
    try:
        if (time + rate) % 11 == 0:
            G.by_keyword(ebb_calc.max_rate_t3, (time, rate, accel, jerk))
            ctx.tag("arguments passed by keyword")
        else:
            ebb_calc.max_rate_t3(time, rate, accel, jerk)
    except Exception as exc:
        ctx.violation("exception", {"fn": "max_rate_t3", "args": [time, rate, accel, jerk],
                                    "exception": repr(exc)})


NEEDED = ["T=1", "T=2", "T=3", "T:4..20", "T:20..1e3", "T:1e3..1e5", "T:1e5..2^24",
          "jerk=0", "vertex before tick 1", "vertex in [1,1.5]", "vertex inside",
          "vertex in [T-1.5,T]", "vertex beyond T", "vertex on an integer", "vertex on a half-integer",
          "peak strictly inside the move", "peak rate at +-(2^31-1)", "rate sign differs at the ends"]


def edge_of_window(ctx, rng, n):
    """Vertex a hair (a few 1/jerk) away from T-1.5 or 1.5 with T*|jerk| up to 2^31: accel is
    -(T-2)*jerk + d or -jerk + d with |d| <= 3 - the interior tick must still be examined."""
    from plotink import ebb_calc
    done = 0
    tries = 0
    while done < n and tries < 60 * n:
        tries += 1
        time = rng.choice((4, 5, 6, 7, 9, 12, 20, 50, 200, 1000))
        jmax = (2 ** 31 - 1) // max(time - 2, 1)
        jerk = rng.choice((1, -1)) * rng.randint(max(1, jmax // 50), jmax)
        d = rng.choice((-3, -2, -1, 0, 1, 2, 3))
        upper = rng.random() < 0.6
        accel = (-(time - 2) * jerk if upper else -jerk) + d
        if abs(accel) > S.RMAX:
            continue
        # choose the start rate so that the rate at the vertex tick is large and the ends are in range
        k = time - 1 if upper else 2
        r_no_rate = S.t3_rate(0, accel, jerk, k)
        sign = 1 if r_no_rate >= 0 else -1
        rate = sign * rng.randint(0, S.RMAX) - r_no_rate + sign * rng.randint(0, 10 ** 6)
        rate = max(-S.RMAX, min(S.RMAX, rate))
        if not S.t3_in_domain(rate, accel, jerk, time):
            rate = -r_no_rate // 2
            if abs(rate) > S.RMAX or not S.t3_in_domain(rate, accel, jerk, time):
                continue
        ctx.case(["vertex within a few 1/jerk of the window edge (large jerk)",
                  "edge:T-1.5" if upper else "edge:1.5"], (time, rate, accel, jerk))
        try:
            ebb_calc.max_rate_t3(time, rate, accel, jerk)
        except Exception as exc:
            ctx.violation("exception", {"fn": "max_rate_t3", "args": [time, rate, accel, jerk], "exception": repr(exc)})
        done += 1
    ctx.extra["edge_of_window_generator_tries"] = tries


def equal_ends(ctx, rng, n):
    """Moves whose first-tick and last-tick rates have exactly the same magnitude - with the same sign (a
    profile that is mirror-symmetric about mid-move) or with OPPOSITE signs (not symmetric at all: the vertex
    lies well inside one half).  Anything that takes |R(1)| == |R(T)| for symmetry is wrong on the second."""
    done = tries = 0
    while done < n and tries < 60 * n:
        tries += 1
        time = rng.choice((4, 5, 8, 9, 12, 20, 33, 100, 257, 1000, rng.randint(4, 3000)))
        jerk = rng.choice((1, -1, 2, -2, 3, 5, -7, 12, rng.randint(-40, 40))) or 1
        opposite = rng.random() < 0.6
        if opposite:
            accel = rng.randint(-60, 60) * rng.choice((1, 1, time))
            total = (time + 1) * accel + jerk * time * (time - 1) // 2
            if total % 2:
                accel += 1
                total = (time + 1) * accel + jerk * time * (time - 1) // 2
            r_eff = -total // 2
        else:
            if (jerk * time) % 2:
                jerk *= 2
            accel = -jerk * time // 2
            r_eff = rng.randint(-10 ** 6, 10 ** 6)
        rate = r_eff + S.trunc_div(accel, 2) - S.trunc_div(jerk, 6)
        if not (-S.I32 <= accel < S.I32) or abs(rate) > S.RMAX or not S.t3_in_domain(rate, accel, jerk, time):
            continue
        r1, rt = S.t3_rate(rate, accel, jerk, 1), S.t3_rate(rate, accel, jerk, time)
        if abs(r1) != abs(rt) or (opposite and (r1 != -rt or r1 == 0)):
            continue
        ctx.case(["ends of equal magnitude, %s sign" % ("opposite" if opposite else "same")], (time, rate, accel, jerk))
        one_case(ctx, time, rate, accel, jerk)
        done += 1


def over_limit(ctx, rng, n):
    """In-domain moves pushed over the limit by raising the start rate: interior peak above 2^31-1 with
    the ends inside it, ends above it, everything above it."""
    done = tries = 0
    while done < n and tries < 40 * n:
        tries += 1
        case = G.gen_t3_case(rng)
        if case is None:
            continue
        _classes, time, rate, accel, jerk, _accum = case
        peak_tick = max(S.t3_candidate_ticks(accel, jerk, time), key=lambda k: abs(S.t3_rate(rate, accel, jerk, k)))
        sign = 1 if S.t3_rate(rate, accel, jerk, peak_tick) >= 0 else -1
        gap = S.RMAX - S.t3_peak(rate, accel, jerk, time)
        push = gap + rng.choice((1, 2, rng.randint(1, 1000), rng.randint(1, S.RMAX), rng.randint(1, 3 * S.RMAX)))
        rate2 = rate + sign * push
        ctx.case(["over the limit"], (time, rate2, accel, jerk))
        one_case(ctx, time, rate2, accel, jerk)
        done += 1


def run(ctx):
    from .. import wtests
    wtests.run(ctx)
    install(ctx)
    rng = ctx.rng
    from .. import longrun
    _early = longrun.Early()
    equal_ends(ctx, rng, ctx.budget(6_000, 40_000))
    ctx.need("ends of equal magnitude, opposite sign", 1_500)
    ctx.need("ends of equal magnitude, same sign", 1_000)
    over_limit(ctx, rng, ctx.budget(8_000, 80_000))
    ctx.need("peak above the 2^31-1 limit (the move the helper must expose)", 3_000)
    edge_of_window(ctx, rng, ctx.budget(6_000, 60_000))
    ctx.need("vertex within a few 1/jerk of the window edge (large jerk)", 3_000)
    ctx.need("edge:T-1.5", 1_000)
    ctx.need("edge:1.5", 1_000)
    n = ctx.budget(150_000, 1_500_000)
    done = 0
    while done < n and ctx.alive():
        if rng.random() < 0.002:
            from .. import noise
            noise.burst(ctx, rng, exclude=('stepper', 'legacy-stepper'))
        if rng.random() < 0.003:
            from plotink import ebb_calc as _ec
            G.failed_call(rng, rng.choice((_ec.max_rate_t3, _ec.rate_t3)), 4)
            ctx.tag("history: after a failed call (malformed arguments)")
        case = G.gen_t3_case(rng)
        if case is None:
            ctx.count("generator:rejected draw (outside domain)")
            continue
        classes, time, rate, accel, jerk, _accum = case
        classes = [c for c in classes if not c.startswith(("accum", "total"))]
        ctx.case(classes, (time, rate, accel, jerk), nontrivial=time >= 2)
        ctx.sample({"T": time, "rate": rate, "accel": accel, "jerk": jerk}, tag=classes[1] if len(classes) > 1 else classes[0])
        one_case(ctx, time, rate, accel, jerk)
        _early.remember((time, rate, accel, jerk))
        if time <= 3000 and done % 8 == 0:
            ctx.count("oracle self-check (all ticks brute force)")
            if S.tick_t3(time, rate, accel, jerk, 0)[3] != S.t3_peak(rate, accel, jerk, time):
                ctx.oracle_fault("peak from vertex neighbours != brute force", [time, rate, accel, jerk])
        done += 1
    from plotink import ebb_calc as _ec2
    longrun.churn_then_replay(
        ctx, _ec2, "max_rate_t3", lambda k: (2 + k % 40, 100000 + k, k % 201 - 100, k % 7 - 3), _early,
        lambda it: one_case(ctx, *it))
    ctx.need("history: asked again after 100000+ other distinct requests", 30)
    for cls in NEEDED + ["arguments passed by keyword"]:
        ctx.need(cls, 100)
    ctx.need("monitor:max_rate_t3 evaluated", 50_000)
    ctx.need("oracle self-check (all ticks brute force)", 1000)
    ctx.need("history: after calls to other library functions", 200)
    contracts.uninstall_all()


def replay(ctx, rec):
    install(ctx)
    time, rate, accel, jerk = rec["witness"]["args"]
    ctx.case(["replay"], None)
    one_case(ctx, time, rate, accel, jerk)
    contracts.uninstall_all()
