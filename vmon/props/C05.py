"""C05 - EBB3 command/query framing and fault handling.

Deciding monitors (all observe the REAL ebb3_serial.EBB3 / ebb3_motion.EBBMotionWrap):
  * client-boundary log (call / return / raise of every public method, nesting depth),
  * device-boundary log (every write / readline of the injected fake port),
  * offline checker over both logs per command()/query() invocation and per depth-0 call
    (vmon/ebb3mon.py:check_step): one write == trimmed text + CR, reads == empties (<= 25) + 1,
    success <=> first non-empty line starts with the name and has no 'Err:', query payload,
    nothing raised across the client boundary, failure recorded in err and reported by the
    failure value, and after a success no reply is left unread (attribution).
Workloads: (a) framing of arbitrary request strings against scripted replies, (b) every
registry method x fault kind x I/O position, (c) delayed-but-conforming random histories whose
returned values are compared with the board state / the reply generated for that very request.
"""
import json

from .. import ebb3mon

LEVEL = "fault_enumeration"
THOROUGH_SHARDS = 16
RULE = ("(a) request strings (one-letter, one-letter-with-arguments, two-letter; blanks, tabs, CR around) x reply "
        "streams (conforming with 0..25 empty reads first, 26+ empty reads, error lines incl. name-prefixed ones, "
        "wrong-name lines, exceptions at the write or any read) against command() and query(); (b) each of the 32 "
        "public request methods x fault kind x every write/read index the fault-free call performs; (c) random "
        "delayed-but-conforming histories of 3..14 calls. One evaluation = one depth-0 call checked; distinct by "
        "(method, arguments, faults, replies); non-trivial when the call did I/O")
ASSUMPTIONS = ["the 'up to 25 empty reads' clause applies to command()/query() and everything routed through them; "
               "query_statusbyte, reboot and bootload do their own single write/read: for them only the no-raise, "
               "write-once and failure-value clauses are applied, and reboot/bootload need not record err on a write fault",
               "replies with a correct name but a malformed payload are outside the statement's reply alphabet",
               "I/O exceptions injected: the pyserial family (SerialException, SerialTimeoutException, "
               "PortNotOpenError) and OSError; after RB/R/BL requests command()/query() deliberately ignore them"]

ONE_LETTER = ["V", "R", "v"]
ONE_LETTER_ARGS = ["O,1,2", "C,0,0,0,0", "I,3", "O,255,0,7"]
TWO_LETTER = ["QG", "QS", "SM,100,-5,5", "T3,1,0,0,0,0,0,0,3", "EM,1,1", "QL,7", "PI,B,3", "SP,1", "HM,4000,0,0",
              "ST,name with, comma", "CU,50,0", "qg", "Qs"]


def classify(rec):
    return None


EXOTIC_WS = ["\x1c", "\x1d", "\x1e", "\x1f", "\x0b", "\x0c", "\x85", "\xa0", "\u2003", "\u3000", "\u2028"]


def decorate(rng, text):
    c = rng.randrange(8)
    if c >= 6:
        # surrounding whitespace beyond blank/TAB/CR/LF: everything str.strip() trims
        lead = "".join(rng.choice(EXOTIC_WS + [" "]) for _ in range(rng.randint(0, 2)))
        trail = "".join(rng.choice(EXOTIC_WS + [" "]) for _ in range(rng.randint(1, 3)))
        return lead + text + trail
    if c == 0:
        return text
    if c == 1:
        return " " + text + " "
    if c == 2:
        return "\t" + text + "\t "
    if c == 3:
        return text + "\r"
    if c == 4:
        return "\n " + text + "\r\n"
    return "  " + text


def reply_eol(rng):
    return rng.choice(["\r\n", "\n", "\r\n", "\n\r", " \r\n"])


def gen_framing(rng):
    """One framing case: (classes, step)."""
    shape = rng.randrange(3)
    text = rng.choice((ONE_LETTER, ONE_LETTER_ARGS, TWO_LETTER)[shape])
    shape_cls = ("one-letter", "one-letter+args", "two-letter")[shape]
    name = ebb3mon.request_name(text)
    prim = rng.choice(["command", "query"])
    nonce = "%d" % rng.randrange(10 ** 6)
    kind = rng.choice(["ok", "ok", "ok-delayed", "ok-delayed", "ok-25", "timeout-26", "timeout-silence", "errline",
                       "errline-named", "wrong-name", "raise-write", "raise-read", "raise-read-late", "bare-name",
                       "prefix-of-longer-name"])
    lead = rng.choice(["", "", " ", "\t"])
    payload_forms = [name, name + "," + nonce, name + "," + nonce + ",7", name + nonce,
                     name + ",," + nonce, name + ",", name + ",,", name + ",," + nonce + ",,",
                     name + ",a" + name + "," + nonce, name + "," + name + "," + name + ",", name + name + "," + nonce]
    reply = lead + rng.choice(payload_forms) + reply_eol(rng)
    faults = []
    if kind == "ok-delayed":
        faults.append({"op": "read", "at": rng.randrange(3), "kind": "empty", "count": rng.randint(1, 24)})
    elif kind == "ok-25":
        faults.append({"op": "read", "at": 0, "kind": "empty", "count": 25})
    elif kind == "timeout-26":
        faults.append({"op": "read", "at": 0, "kind": "empty", "count": rng.choice([26, 27, 40])})
    elif kind == "timeout-silence":
        faults.append({"op": "read", "at": rng.randrange(3), "kind": "silence"})
    elif kind == "errline":
        reply = lead + rng.choice(ebb3mon.ERR_LINES[:2]) + reply_eol(rng)
    elif kind == "errline-named":
        reply = lead + name + ",!5 Err: Invalid parameter value" + reply_eol(rng)
    elif kind == "wrong-name":
        cands = [w for w in ebb3mon.WRONG_NAME + ["Q", "S"] if not w.startswith(name)]
        reply = lead + rng.choice(cands) + reply_eol(rng)
    elif kind == "raise-write":
        faults.append({"op": "write", "at": 0, "kind": "raise", "exc": rng.choice(ebb3mon.FATAL_EXC)})
    elif kind == "raise-read":
        faults.append({"op": "read", "at": 0, "kind": "raise", "exc": rng.choice(ebb3mon.FATAL_EXC)})
    elif kind == "raise-read-late":
        k = rng.randint(1, 20)
        faults.append({"op": "read", "at": 0, "kind": "empty", "count": k + 3})
        faults.append({"op": "read", "at": k, "kind": "raise", "exc": rng.choice(ebb3mon.FATAL_EXC)})
    elif kind == "bare-name":
        reply = name + reply_eol(rng)
    elif kind == "prefix-of-longer-name":
        # the reply of a request whose name merely *contains* the request's name later on
        reply = "X" + name + "," + nonce + reply_eol(rng)
    sent = decorate(rng, text)
    step = {"m": prim, "a": [sent], "faults": faults, "reply": {"0": reply}}
    extra = ["whitespace: ASCII separators / non-ASCII spaces around the request"] if any(ch in sent for ch in EXOTIC_WS) else []
    return [shape_cls, "framing:" + kind, "primitive:" + prim] + extra, step


def value_hook(ctx, findings):
    """Attribution: values returned by composite query methods == what the board holds /
    generated for that very request."""
    def hook(world, i, step, top):
        if top is None or "raised" in top or world.obj.err is not None:
            return
        board, name, res = world.board, step["m"], top["result"]
        exp = None
        if name == "var_read":
            exp = board.ram[step["a"][0]]
        elif name == "query_steps":
            exp = tuple(board.steps)
        elif name == "dio_b_read":
            exp = bool(board.pins_b[step["a"][0] % 8])
        elif name == "motors_query_enabled":
            exp = (board.mode if board.en1 else 0, board.mode if board.en2 else 0)
        elif name in ("query_current", "query_voltage", "query_statusbyte"):
            line = board.requests[-1]["replies"][-1].decode("latin-1").strip() if board.requests[-1]["replies"] else ""
            if name == "query_statusbyte":
                exp = int(line[3:], 16)
            else:
                a, b = line[3:].split(",")
                exp = (int(a), int(b)) if name == "query_current" else \
                    (int(b) >= (step["a"][0] if step["a"] else 250))
        elif name == "var_read_int32":
            s = step["a"][0]
            exp = int.from_bytes(bytes(board.ram[s:s + 4]), "big", signed=True)
        else:
            return
        ctx.count("monitor:returned value compared with the board")
        if res != exp or not isinstance(res, type(exp)):      # a subclass (named tuple, IntEnum) is the same value
            findings.append({"prop": "C05", "step": i, "method": name,
                             "kind": "value returned does not belong to this request / board state",
                             "returned": repr(res), "expected": repr(exp)})
    return hook


def run_case(ctx, classes, scen, nontrivial=True):
    extra = []
    findings, world, tops = ebb3mon.run_scenario(scen, hook=value_hook(ctx, extra))
    findings = findings + extra
    key = json.dumps(scen, sort_keys=True, default=repr)
    ctx.case(classes, key, nontrivial=nontrivial)
    ctx.count("events:total", len(world.log.events))
    for ev in world.log.events:
        if ev["kind"] in ("write", "read"):
            ctx.count("events:" + ev["kind"])
    ctx.count("monitor:depth-0 calls checked", len(tops))
    for top in tops:
        if top is None:
            continue
        for fr in ebb3mon.walk(top):
            if fr["m"] in ("command", "query") and not fr["port_none"] and fr["err_at_entry"] is None:
                ctx.count("monitor:command/query invocations checked")
    for f in findings:
        if f["prop"] == "harness":
            ctx.oracle_fault("harness: " + f["kind"], {"scenario": scen, "finding": f})
        elif f["prop"] == "C05":
            ctx.count("finding:%s|%s" % (f["kind"], f.get("method")))
            ctx.violation(f["kind"], {"scenario": scen, "finding": f, "log_tail": world.log.dump(40)})
        else:
            ctx.count("observed:finding of another property (%s)" % f["prop"])
    return findings, world, tops


def systematic(ctx, rng, methods, all_kinds):
    """method x fault kind x every I/O position of the fault-free call."""
    seen = ctx.extra.setdefault("distinct_method_fault_position", set())
    for name in methods:
        if not ctx.alive():
            return
        args = ebb3mon.gen_args(rng, name)
        if name == "motors_enable" and rng.random() < 0.7:
            args = [0, rng.randint(1, 5)]          # the branch with the nested query
        board = {"version": "3.0.2", "nickname": rng.choice(["", "Ada"]), "pad": rng.random() < 0.3,
                 "eol": reply_eol(rng).strip(" ") or "\r\n"}
        step = {"m": name, "a": args}
        n_w, n_r = ebb3mon.dry_io_counts(board, "attach", [], step)
        positions = [("write", i) for i in range(n_w)] + [("read", i) for i in range(n_r)]
        for op, at in positions:
            for fault in ebb3mon.fatal_faults_at(op, at, all_kinds=all_kinds):
                label = ebb3mon.fault_label(fault)
                scen = {"board": board, "setup": "attach", "steps": [dict(step, faults=[fault])]}
                run_case(ctx, ["systematic", "method:" + name, "fault:" + label], scen)
                seen.add("%s|%s|%d" % (name, label, at))
            if op == "read":
                for k in ((1, 7, 25) if all_kinds else (rng.choice((1, 7)), 25)):
                    fault = {"op": "read", "at": at, "kind": "empty", "count": k}
                    scen = {"board": board, "setup": "attach", "steps": [dict(step, faults=[fault])]}
                    run_case(ctx, ["systematic", "method:" + name, "fault:read:benign delay"], scen)
                    seen.add("%s|delay%d|%d" % (name, k, at))


def history(ctx, rng):
    """Delayed-but-conforming history: every call succeeds and is attributed correctly."""
    names = sorted(n for n in ebb3mon.REQUESTS if n not in ("reboot", "bootload"))
    steps = []
    for _ in range(rng.randint(3, 14)):
        name = rng.choice(names)
        faults = []
        if rng.random() < 0.6 and name != "query_statusbyte":
            # one delay per call: a line is preceded by at most 25 empty reads
            faults.append({"op": "read", "at": rng.randrange(6), "kind": "empty", "count": rng.randint(1, 25)})
        steps.append({"m": name, "a": ebb3mon.gen_args(rng, name), "faults": faults})
    if rng.random() < 0.3:
        steps.append({"m": rng.choice(["reboot", "bootload"]), "a": []})
    board = {"version": rng.choice(["3.0.2", "3.0.10", "3.1.0"]), "nickname": rng.choice(["", "Ada", "north-east"]),
             "pad": rng.random() < 0.3, "mode": rng.randint(1, 5), "en1": rng.random() < 0.5,
             "en2": rng.random() < 0.5}
    scen = {"board": board, "setup": rng.choice(["attach", "connect"]), "steps": steps}
    findings, world, tops = run_case(ctx, ["history:delayed-conforming"], scen)
    if world.obj.err is not None and not any(f["prop"] == "C05" for f in findings):
        # a delay placed on a composite call may legally push one primitive past 25 empties? no:
        # each fault delays one line by <= 25 reads, so an error here is a finding
        ctx.violation("conforming delayed history ended with an error recorded",
                      {"scenario": scen, "finding": {"err": world.obj.err}, "log_tail": world.log.dump(40)})


def marathon(ctx, rng):
    """ONE connection object used for tens of thousands of correctly answered requests (a stipple plot makes
    that many in one session): per-object counters, histograms and buffers have no business failing a request."""
    world = ebb3mon.World(board_kwargs={"version": "3.0.2"})
    world.attach()
    n = ctx.budget(66_500, 140_000)
    for i in range(n):
        if i % 3:
            step = {"m": "command", "a": ["SM,%d,0,0" % (1 + i % 700)]}
        else:
            step = {"m": "query", "a": ["QS"]}
        top, _ = ebb3mon.call_step(world, step)
        res = None if top is None else top.get("result")
        ok = top is not None and "raised" not in top and world.obj.__dict__.get("err") is None and \
            (res is True if step["m"] == "command" else isinstance(res, str))
        if not ok:
            ctx.violation("correctly answered request failed on a long-lived object", {
                "request_number_on_this_object": i + 1, "step": step, "returned": repr(res),
                "raised": repr(top.get("raised")) if top else None, "err": world.obj.__dict__.get("err")})
            break
        if i % 5000 == 4999:
            world.log.events.clear()
            world.mon.done = []
    ctx.case(["one object, tens of thousands of error-free requests"], ("marathon", n))
    ctx.count("monitor:requests on the long-lived object", n)


def run(ctx):
    rng = ctx.rng
    marathon(ctx, rng)
    ctx.need("one object, tens of thousands of error-free requests", 1)
    ctx.extra["registry"] = ebb3mon.registry_report()
    if ctx.extra["registry"]["public_methods_not_in_registry"] or ctx.extra["registry"]["registry_methods_missing_from_class"]:
        ctx.note("registry differs from the class: %s" % ctx.extra["registry"])
    quick = ctx.tier == "quick"
    ctx.extra["registry"] = [ctx.extra["registry"]]
    # (a) framing
    for _ in range(ctx.budget(30000, 200000)):
        if not ctx.alive():
            break
        if rng.random() < 0.005:
            from .. import noise
            noise.burst(ctx, rng, exclude=('versions', 'discovery'))
        classes, step = gen_framing(rng)
        scen = {"board": {"version": "3.0.2"}, "setup": "attach", "steps": [step]}
        ctx.sample(scen, tag=classes[1], per_tag=1)
        run_case(ctx, classes, scen)
    # (b) systematic faults
    methods = sorted(ebb3mon.REQUESTS)
    if ctx.nshards > 1:
        methods = [m for i, m in enumerate(methods) if i % ctx.nshards == ctx.shard] or [rng.choice(methods)]
    for _rep in range(2 if quick else 40):
        systematic(ctx, rng, methods, all_kinds=True)
    # (c) histories
    for _ in range(ctx.budget(5000, 60000)):
        if not ctx.alive():
            break
        if rng.random() < 0.03:
            from .. import noise
            noise.burst(ctx, rng, exclude=('versions', 'discovery'))
        history(ctx, rng)
    seen = ctx.extra.pop("distinct_method_fault_position")
    ctx.extra["distinct_method_fault_position_triples"] = len(seen)
    ctx.extra["method_fault_position_examples"] = sorted(seen)[:12]
    for cls in ("one-letter", "one-letter+args", "two-letter", "framing:ok", "framing:ok-delayed", "framing:ok-25",
                "framing:timeout-26", "framing:timeout-silence", "framing:errline", "framing:errline-named",
                "framing:wrong-name", "framing:raise-write", "framing:raise-read", "framing:raise-read-late",
                "framing:bare-name", "framing:prefix-of-longer-name", "primitive:command", "primitive:query",
                "whitespace: ASCII separators / non-ASCII spaces around the request"):
        ctx.need(cls, 40)
    ctx.need("systematic", 300 if ctx.nshards == 1 else 30)
    ctx.need("history:delayed-conforming", 300)
    ctx.need("history: after calls to other library functions", 150)
    ctx.need("monitor:command/query invocations checked", 5000)
    ctx.need("monitor:returned value compared with the board", 100)
    if ctx.nshards == 1:
        for name in ebb3mon.REQUESTS:
            ctx.need("method:" + name, 1)


def replay(ctx, rec):
    scen = rec["witness"]["scenario"]
    run_case(ctx, ["replay"], scen)
