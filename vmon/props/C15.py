"""C15 - firmware version gating uses numeric version order and blocks unsupported boards.

Monitors:
  (a) ORDER - the real ebb_serial.min_version (asked through a fake port whose board reports
      a.b.c) and the real EBB3.min_version (after the real parse_version) against thresholds
      x.y.z; oracle = integer-tuple comparison; the two layers must agree.
  (b) HANDSHAKE - fresh monitored EBB3 objects, serial.Serial replaced by a factory that hands
      out the fake port; device models: EBB of any version, late / absent replies, non-EBB text,
      non-ASCII bytes, exceptions at open / each write / each read.  Checker over the event
      log: connect() is True with err None <=> the device identified itself as an EBB within
      the two probes and its version >= 3.0.2; otherwise False with err set; nothing raised;
      a rejected device received nothing but version probes; afterwards request methods write
      nothing (latch monitor of C04).
  (c) LEGACY GATES - servo_timeout (2.6.0), queryVoltage (2.2.3), query_nickname /
      write_nickname / reboot (2.5.5): the gated command reaches the wire <=> reported
      version >= threshold."""
import json

from .. import ebb3mon, serialsim

LEVEL = "exploration"
THOROUGH_SHARDS = 16
RULE = ("(a) version triples from the grid {0,1,2,9,10,11,99,100}^3 and random multi-digit components against "
        "thresholds from the same sets (pairs that differ in exactly one component, equal pairs, 9-vs-10 digit-length "
        "pairs are constructed); (b) handshake: reported version x reply timing (prompt, one empty read first / reply "
        "to the 2nd probe only, absent) x device identity (EBB, non-EBB ASCII, text containing 'EBB' without a "
        "version, non-ASCII bytes) x exceptions (open, write 0/1, read 0/1); (c) five gated legacy helpers x versions "
        "around their thresholds. One evaluation = one comparison / one connect() / one gated call; distinct by its "
        "full input; non-trivial when a device answered")
ASSUMPTIONS = ["supported minimum for connect(): the class constant MIN_VERSION_STRING of the tree under test, read at "
               "run time and compared as an integer triple",
               "'identifies itself as an EBB': the reply to a version probe is ASCII text that starts with 'EBB' and "
               "carries 'Firmware Version a.b.c'; a device whose text merely contains the letters EBB without a "
               "version, or that sends non-ASCII bytes, is a non-EBB device",
               "a repeated connect() on an object whose port is still open performs no handshake; its return value "
               "is logged, not decided"]

GRID = (0, 1, 2, 9, 10, 11, 99, 100)
PRODUCT = "EBBv13_and_above EB Firmware Version "


def classify(rec):
    return None


def vstr(t):
    return ".".join("%d" % c for c in t)


def gen_pair(rng):
    """(version triple, threshold triple, class)."""
    c = rng.randrange(8)
    if c == 7:
        # the two numbers do not have the same number of components (a threshold written "2.6", a
        # four-part firmware number): still compared component by component
        nv, nt = rng.choice(((2, 3), (3, 2), (1, 3), (3, 1), (4, 3), (3, 4), (2, 4)))
        v = [rng.choice(GRID) for _ in range(nv)]
        t = [rng.choice(GRID) for _ in range(nt)]
        if rng.random() < 0.6:
            k = min(nv, nt)
            t[:k] = v[:k]              # equal on the components they share
        return tuple(v), tuple(t), "different number of components"
    if c == 0:
        v = tuple(rng.choice(GRID) for _ in range(3))
        return v, v, "equal"
    if c == 1:
        v = [rng.choice(GRID) for _ in range(3)]
        t = list(v)
        i = rng.randrange(3)
        t[i] = rng.choice([x for x in GRID if x != v[i]])
        return tuple(v), tuple(t), "differ in one component"
    if c == 2:
        # digit-length trap: 9 vs 10, 99 vs 100, 2 vs 10 ...
        lo, hi = rng.choice([(9, 10), (99, 100), (2, 10), (9, 11), (2, 100), (3, 20)])
        i = rng.randrange(3)
        v = [rng.choice(GRID) for _ in range(3)]
        t = list(v)
        if rng.random() < 0.5:
            v[i], t[i] = hi, lo
        else:
            v[i], t[i] = lo, hi
        return tuple(v), tuple(t), "digit-length trap (string order differs)"
    if c == 3:
        return (tuple(rng.choice(GRID) for _ in range(3)), tuple(rng.choice(GRID) for _ in range(3)), "grid x grid")
    if c == 4:
        # earlier component decides against the later ones
        a = rng.choice(GRID[:-1])
        v = (a, rng.choice(GRID), rng.choice(GRID))
        t = (rng.choice([x for x in GRID if x > a]), 0, 0)
        return (v, t, "major decides") if rng.random() < 0.5 else (t, v, "major decides")
    return (tuple(rng.randint(0, 300) for _ in range(3)), tuple(rng.randint(0, 300) for _ in range(3)), "random multi-digit")


def order_case(ctx, rng):
    from plotink import ebb_serial
    v, t, cls = gen_pair(rng)
    want = v >= t
    pad_v = pad_t = None
    if rng.random() < 0.15:
        # the same numbers written with leading zeros in some fields ("02.9.9")
        pad_v = ".".join(("%0" + str(rng.choice((1, 2, 3))) + "d") % c for c in v)
        if rng.random() < 0.5:
            pad_t = ".".join(("%0" + str(rng.choice((1, 2, 3))) + "d") % c for c in t)
        cls_pad = "order:fields written with leading zeros"
    n = max(len(v), len(t))
    padded = tuple(v) + (0,) * (n - len(v)) >= tuple(t) + (0,) * (n - len(t))
    undecided = padded != want      # "3.0" against "3.0.0": equal or older, depending on whether a missing
    #                                 component counts as zero - the statement does not say; only the
    #                                 agreement of the two layers is decided for such pairs
    # EBB3 layer
    obj = ebb3mon.monitored_class()()
    sv, st = pad_v or vstr(v), pad_t or vstr(t)
    obj.parse_version(PRODUCT + sv + rng.choice(["", " ", "\r\n"]))
    got3 = obj.min_version(st)
    # legacy layer, through the wire
    log = serialsim.EventLog()
    board = serialsim.Legacy2xBoard(version=sv)
    port = serialsim.FakePort(board, log)
    got2 = ebb_serial.min_version(port, st)
    ctx.case(["order", "order:" + cls, "order:newer-or-equal" if want else "order:older"] +
             ([cls_pad] if pad_v else []), ("order", v, t, sv, st))
    ctx.count("monitor:version comparisons checked", 2)
    w = {"part": "order", "version": sv, "threshold": st, "expected": want, "ebb3": got3, "legacy": got2}
    if undecided:
        ctx.tag("order: missing trailing components that are zero in the other number (only layer agreement decided)")
    elif got3 is not want:
        ctx.violation("EBB3.min_version does not order versions numerically", w)
    elif got2 is not want:
        ctx.violation("ebb_serial.min_version does not order versions numerically", w)
    if got2 is not got3:
        ctx.violation("the two layers disagree on a version comparison", w)


# ---- handshake -------------------------------------------------------------------------
NON_EBB = ["Arduino Uno rev 3", "ok", "Grbl 1.1h ['$' for help]", "Marlin 2.0.9.3", "start", "!8 Err: Unknown command",
           "ATI OK", "ebb lower-case impostor Firmware Version 9.9.9"]
HALF_EBB = ["WEBBED-3000 bootloader", "EBB", "EBBv13_and_above EB", "xEBBx ready", "EBB Firmware Version abc",
            "EBBv13 Firmware Version "]
NON_ASCII = ["\xff\xfe\r\n", "EBB\xe9v13 Firmware Version 3.0.2\r\n", "\x80\x81\x82\r\n", "\xc3\xa9\r\n"]
VERSIONS = ["3.0.2", "3.0.3", "3.0.10", "3.1.0", "3.10.0", "10.0.0", "4.0.0", "3.0.1", "3.0.0", "2.8.1", "2.10.0",
            "2.9.9", "2.99.99", "0.0.0", "3.0.02", "03.0.2",
            # zero-padded fields (numerically 2.9.9, 3.0.1, ...): the NUMBER decides, not the digit count
            "02.9.9", "3.00.1", "3.0.01", "002.10.0", "03.00.00", "3.0.010", "03.01.00"]


def triple(text):
    return tuple(int(p) for p in text.split("."))


def gen_handshake(rng):
    """(classes, step, board kwargs, device description)"""
    c = rng.randrange(11)
    version = rng.choice(VERSIONS) if rng.random() < 0.7 else vstr(tuple(rng.randint(0, 12) for _ in range(3)))
    board = {"version": version}
    step = {"m": "connect", "a": [], "faults": []}
    dev = {"identity": "EBB", "version": version, "timing": "prompt"}
    if c == 0:
        pass
    elif c == 1:
        step["faults"] = [{"op": "read", "at": 0, "kind": "empty", "count": 1}]
        dev["timing"] = "late (first read empty)"
    elif c == 2:
        step["faults"] = [{"op": "read", "at": 0, "kind": "silence"}]
        dev["timing"] = "absent"
        dev["identity"] = "silent"
    elif c == 3:
        if rng.random() < 0.4:
            # a complete, parseable version line of another product (the version follows directly)
            board["product"] = rng.choice(["WebbControl CNC Firmware Version ", "ebb-clone Firmware Version ",
                                           "Pebble Firmware Version ", "eBb Firmware Version ",
                                           "Arduino Firmware Version ", "E B B Firmware Version "])
        else:
            board["product"] = rng.choice(NON_EBB) + " "
        dev["identity"] = "non-EBB"
    elif c == 4:
        text = rng.choice(HALF_EBB)
        step["reply"] = {"0": text + "\r\n", "1": text + "\r\n"}
        dev["identity"] = "non-EBB (text contains EBB, no version)"
    elif c == 5:
        text = rng.choice(NON_ASCII)
        step["reply"] = {"0": text, "1": text}
        dev["identity"] = "non-EBB (non-ASCII bytes)"
    elif c == 6:
        step["open_fault"] = rng.choice(["SerialException", "SerialTimeoutException"])
        dev["identity"] = "port cannot be opened"
    elif c == 7:
        op, at = rng.choice([("write", 0), ("write", 1), ("read", 0), ("read", 1)])
        step["faults"] = [{"op": op, "at": at, "kind": "raise",
                           "exc": rng.choice(["SerialException", "SerialTimeoutException", "PortNotOpenError"])}]
        if (op, at) in (("write", 1), ("read", 1)):
            # only reached when the first probe was not answered
            step["faults"].append({"op": "read", "at": 0, "kind": "empty", "count": 1})
        dev["identity"] = "raises at %s %d" % (op, at)
    elif c == 8:
        # first probe answered by garbage/late junk, second by the EBB
        step["reply"] = {"0": rng.choice(["\r\n", "OK\r\n", "!8 Err: Unknown command\r\n"])}
        dev["timing"] = "identified by the second probe"
    elif c == 10:
        # the version line arrives in two pieces because the 1 s read timeout fires in the middle of it
        # (a slow or busy board): readline() hands over what it has.  Whatever the pieces look like, a
        # board whose firmware is too old must not be accepted; refusing a supported board in this
        # degraded situation is not a violation ('returns True ... only for').
        full = "EBBv13_and_above EB Firmware Version " + version + "\r\n"
        lo = len(full) - len(version) - 2
        cut = rng.randint(lo, len(full) - 1) if rng.random() < 0.8 else rng.randint(1, len(full) - 1)
        pieces = [full[:cut], full[cut:]]
        step["reply"] = {"0": pieces, "1": pieces}
        dev["timing"] = "reply cut in two by the read timeout"
        dev["fragment"] = pieces[0][lo:] if cut >= lo else "(cut before the version)"
    elif c == 9 and rng.random() < 0.5:
        op = rng.choice(["reset", "close"])
        exc = rng.choice(["SerialException", "SerialTimeoutException", "PortNotOpenError"])
        step["faults"] = [{"op": op, "at": 0, "kind": "raise", "exc": exc}]
        if op == "close":
            # close() only happens when the device is refused: combine with a silent device
            step["faults"].append({"op": "read", "at": 0, "kind": "silence"})
            dev["identity"] = "silent"
            dev["timing"] = "absent"
        else:
            dev["identity"] = "raises at reset_input_buffer 0"
    else:
        step["ports"] = []
        dev["identity"] = "no port enumerated"
    if rng.random() < 0.1:
        step["k"] = {"caller": rng.choice(["axicli", "inkscape", ""])}
    if rng.random() < 0.15 and c not in (9,):
        step["a"] = [rng.choice(["/dev/fake0", "Ada", "ada", "/DEV/FAKE0"])]
        step["ports"] = [("/dev/fake0", "EiBotBoard,Ada", "USB VID:PID=04D8:FD92 SER=Ada LOCATION=1")]
    return step, board, dev


def expected_accept(dev, min_triple):
    """The statement's verdict for a device model: accepted iff it is an EBB that answers one of
    the two version probes (promptly, after one empty read, or only the second probe) and its
    firmware is at least the supported minimum."""
    if dev["identity"] != "EBB":
        return False, dev["identity"]
    try:
        tv = triple(dev["version"])
    except ValueError:
        return False, "unparseable version"
    return tv >= min_triple, "version %s" % dev["version"]


def handshake_case(ctx, rng, fixed=None):
    step, board, dev = fixed or gen_handshake(rng)
    cls_obj = ebb3mon.monitored_class()
    min_triple = triple(cls_obj.MIN_VERSION_STRING)
    world = ebb3mon.World(board_kwargs=board)
    top, _ = ebb3mon.call_step(world, step)
    scen = {"board": board, "setup": "none", "steps": [step], "device": dev}
    ctx.case(["handshake", "identity:" + dev["identity"], "timing:" + dev["timing"]],
             ("hs", json.dumps(scen, sort_keys=True)), nontrivial=dev["identity"] not in ("no port enumerated",))
    ctx.count("monitor:connect() calls checked")
    witness = {"part": "handshake", "scenario": scen, "log_tail": world.log.dump(30)}
    if top is None or "raised" in top:
        ctx.violation("connect() raised", dict(witness, exception=repr(top and top.get("raised"))))
        return
    obj = world.obj
    io = ebb3mon.io_of(world, top)
    writes = [e["data"] for e in io if e["kind"] == "write"]
    accept, why = expected_accept(dev, min_triple)
    res = top["result"]
    if "fragment" in dev:
        ctx.tag("version reply cut by the read timeout: firmware %s" % ("supported" if accept else "too old"))
        if res is True and obj.err is None:
            if not accept:
                ctx.violation("board with firmware below the minimum accepted (version reply cut by the read timeout)",
                              dict(witness, returned=repr(res), err=obj.err, why=why, first_piece=dev["fragment"]))
            return
        accept = False      # refused: must then look like any other refusal (checked below)
        why = "refused after a cut reply (" + why + ")"
    ctx.tag("expected:accept" if accept else "expected:reject (%s)" % why.split(" ")[0])
    if accept:
        if res is not True or obj.err is not None:
            ctx.violation("supported EBB rejected", dict(witness, returned=repr(res), err=obj.err, why=why))
            return
        if rng.random() < 0.5:
            second_session(ctx, rng, world, scen, min_triple)
        return
    if res is not False:
        ctx.violation("connect() did not return False for an unsupported / non-EBB / silent device",
                      dict(witness, returned=repr(res), err=obj.err, why=why))
    if obj.err is None:
        ctx.violation("no error recorded for a rejected device", dict(witness, returned=repr(res), why=why))
    extra = [w.decode("latin-1") for w in writes if w != b"v\r"]
    if extra or len(writes) > 2:
        ctx.violation("rejected device received more than the version probe", dict(witness, wrote=[w.decode("latin-1") for w in writes]))
    # afterwards the object must stay silent (ties into the C04 latch monitor)
    mark = world.log.mark()
    intrinsic = dev["identity"] == "EBB" or dev["identity"].startswith("non-EBB")   # not a transient fault
    retried = intrinsic and rng.random() < 0.6
    if retried:
        # a caller that simply tries again: whatever connect() answers (not decided here), the
        # rejected device must still receive nothing but version probes
        retry = dict(step, faults=[], reply=step.get("reply"))
        retry.pop("open_fault", None)
        ebb3mon.call_step(world, retry)
        ctx.tag("retried connect after a rejection")
    for name in rng.sample(sorted(ebb3mon.REQUESTS), 3) + ["command"]:
        ebb3mon.call_step(world, {"m": name, "a": ebb3mon.gen_args(rng, name, reset_ok=True)})
    later = [e["data"].decode("latin-1") for e in world.log.since(mark) if e["kind"] == "write"]
    ctx.count("monitor:follow-up requests on rejected objects", 4)
    if any(w != "v\r" for w in later):
        ctx.violation("rejected device received more than the version probe",
                      dict(witness, wrote_later=later, retried_connect=retried, log_tail=world.log.dump(20)))
    world.mon.online = []


def second_session(ctx, rng, world, scen, min_triple):
    """History on ONE object: after a good session the port is closed and the next connect() meets
    another device (older firmware, non-EBB, or again a supported board). The verdict of the second
    connect() must be about the device that answers NOW."""
    ebb3mon.call_step(world, {"m": "disconnect", "a": []})
    kind = rng.choice(["older firmware", "older firmware", "non-EBB", "supported again", "EBB text without version"])
    board = world.board
    board.future = False
    board.out.clear()
    step = {"m": "connect", "a": [], "faults": []}
    if kind == "older firmware":
        lower = [v for v in ("2.8.1", "3.0.1", "3.0.0", "2.10.0", "2.99.99", "1.0.0") if triple(v) < min_triple]
        board.version = rng.choice(lower or ["0.0.1"])
    elif kind == "non-EBB":
        board.product = rng.choice(NON_EBB) + " "
    elif kind == "supported again":
        board.version = rng.choice([vstr(min_triple), vstr((min_triple[0], min_triple[1], min_triple[2] + 8)),
                                    vstr((min_triple[0] + 1, 0, 0))])
    else:
        text = rng.choice(HALF_EBB)
        step["reply"] = {"0": text + "\r\n", "1": text + "\r\n"}
    mark = world.log.mark()
    top, _ = ebb3mon.call_step(world, step)
    ctx.tag("second session on the same object: " + kind)
    ctx.count("monitor:connect() calls checked")
    witness = {"part": "handshake", "scenario": dict(scen, second_session={"kind": kind, "version": board.version,
                                                                           "product": board.product}),
               "log_tail": world.log.dump(30)}
    if top is None or "raised" in top:
        ctx.violation("connect() raised", dict(witness, exception=repr(top and top.get("raised"))))
        return
    want = kind == "supported again"
    res, obj = top["result"], world.obj
    if want:
        if res is not True or obj.err is not None:
            ctx.violation("supported EBB rejected", dict(witness, returned=repr(res), err=obj.err))
        return
    if res is not False or obj.err is None:
        ctx.violation("connect() did not return False for an unsupported / non-EBB / silent device",
                      dict(witness, returned=repr(res), err=obj.err, why="second session: " + kind))
    for name in rng.sample(sorted(ebb3mon.REQUESTS), 3):
        ebb3mon.call_step(world, {"m": name, "a": ebb3mon.gen_args(rng, name, reset_ok=True)})
    later = [e["data"].decode("latin-1") for e in world.log.since(mark) if e["kind"] == "write"]
    if any(w != "v\r" for w in later):
        ctx.violation("rejected device received more than the version probe",
                      dict(witness, wrote_later=later, why="second session: " + kind))
    world.mon.online = []


# ---- legacy gates -----------------------------------------------------------------------
GATES = [("servo_timeout", "2.6.0", "SR", lambda rng: [rng.randint(0, 60000)] + ([rng.randint(0, 1)] if rng.random() < 0.5 else [])),
         ("queryVoltage", "2.2.3", "QC", lambda rng: []),
         ("serial.query_nickname", "2.5.5", "QT", lambda rng: []),
         ("serial.write_nickname", "2.5.5", "ST", lambda rng: [rng.choice(["Ada", "AxiDraw 7"])]),
         ("serial.reboot", "2.5.5", "RB", lambda rng: [])]


def gate_case(ctx, rng, fixed=None):
    from plotink import ebb_motion, ebb_serial
    name, thr, cmd, argf = fixed[0] if fixed else rng.choice(GATES)
    t = triple(thr)
    if fixed:
        v = fixed[1]
    else:
        c = rng.randrange(6)
        if c == 0:
            v = t
        elif c == 1:
            v = (t[0], t[1], t[2] - 1) if t[2] else (t[0], t[1] - 1, 99)
        elif c == 2:
            v = (t[0], t[1], t[2] + rng.choice([1, 7, 10]))
        elif c == 3:
            v = rng.choice([(2, 10, 0), (2, 9, 9), (10, 0, 0), (2, t[1], 10), (2, 2, 10), (1, 99, 99), (2, 11, 2)])
        elif c == 4:
            v = (rng.randint(0, 4), rng.randint(0, 12), rng.randint(0, 12))
        else:
            v = (2, rng.randint(0, 12), rng.randint(0, 12))
    args = fixed[2] if fixed else argf(rng)
    log = serialsim.EventLog()
    board = serialsim.Legacy2xBoard(version=vstr(v))
    port = serialsim.FakePort(board, log)
    unreadable = (fixed[3] if fixed and len(fixed) > 3 else (rng.random() < 0.12 and rng.choice(
        ["no version in the reply", "silent on V", "error line on V"])))
    if unreadable == "no version in the reply":
        board.product, board.version = "UBW FW D Version 1.4.3", ""
    elif unreadable:
        plan = serialsim.FaultPlan([{"op": "read", "at": 0, "kind": "silence"}] if unreadable == "silent on V" else
                                   [{"op": "read", "at": 0, "kind": "line", "data": "!8 Err: Unknown command\r\n"}])
        port.plan = plan
        plan.arm()
    mod = ebb_serial if name.startswith("serial.") else ebb_motion
    raised = None
    try:
        getattr(mod, name.split(".")[-1])(port, *args)
    except Exception as exc:
        raised = exc
    sent = [e["data"].decode("latin-1").rstrip("\r") for e in log.events if e["kind"] == "write"]
    gated_sent = any(s.split(",")[0].upper() == cmd for s in sent)
    want = v >= t and not unreadable
    if unreadable:
        ctx.tag("gate:version unreadable (%s)" % unreadable)
    ctx.case(["gate", "gate:" + name, "gate:at or above threshold" if want else "gate:below threshold"] +
             (["gate:multi-digit component"] if any(x >= 10 for x in v) else []), ("gate", name, v, json.dumps(args)))
    ctx.count("monitor:gated calls checked")
    w = {"part": "gate", "helper": name, "threshold": thr, "version": vstr(v), "args": args, "wrote": sent,
         "unreadable": unreadable or None}
    if raised is not None:
        ctx.violation("gated helper raised", dict(w, exception=repr(raised)))
    elif gated_sent is not want:
        ctx.violation(("gated command sent although the board reported no readable version" if unreadable else
                       "gated command sent to too old a firmware") if gated_sent else
                      "gated command withheld from a new enough firmware", w)


def run(ctx):
    import logging
    lg = logging.getLogger("plotink.ebb_serial")
    lg.addHandler(logging.NullHandler())
    lg.propagate = False
    rng = ctx.rng
    for _ in range(ctx.budget(12000, 150000)):
        if rng.random() < 0.01:
            from .. import noise
            noise.burst(ctx, rng, exclude=('versions', 'discovery'))
        order_case(ctx, rng)
    for i in range(ctx.budget(6000, 80000)):
        if not ctx.alive():
            break
        if rng.random() < 0.03:
            from .. import noise
            noise.burst(ctx, rng, exclude=('versions', 'discovery'))
        handshake_case(ctx, rng)
    for _ in range(ctx.budget(5000, 60000)):
        if rng.random() < 0.02:
            from .. import noise
            noise.burst(ctx, rng, exclude=('versions', 'discovery'))
        gate_case(ctx, rng)
    for cls in ("order:equal", "order:fields written with leading zeros", "order:different number of components", "order:differ in one component", "order:digit-length trap (string order differs)",
                "order:grid x grid", "order:major decides", "order:random multi-digit", "order:older",
                "order:newer-or-equal", "identity:EBB", "identity:silent", "identity:non-EBB",
                "identity:non-EBB (text contains EBB, no version)", "identity:non-EBB (non-ASCII bytes)",
                "identity:port cannot be opened", "identity:no port enumerated", "timing:late (first read empty)",
                "timing:identified by the second probe", "expected:accept", "gate:at or above threshold",
                "gate:below threshold", "gate:multi-digit component"):
        ctx.need(cls, 100)
    for g in GATES:
        ctx.need("gate:" + g[0], 200)
    ctx.need("monitor:connect() calls checked", 3000)
    ctx.need("version reply cut by the read timeout: firmware too old", 100)
    ctx.need("version reply cut by the read timeout: firmware supported", 100)
    ctx.need("history: after calls to other library functions", 200)
    ctx.need("retried connect after a rejection", 500)
    for kind in ("older firmware", "non-EBB", "supported again", "EBB text without version"):
        ctx.need("second session on the same object: " + kind, 50)
    for kind in ("no version in the reply", "silent on V", "error line on V"):
        ctx.need("gate:version unreadable (%s)" % kind, 30)
    ctx.need("monitor:version comparisons checked", 10000)


def replay(ctx, rec):
    w = rec["witness"]
    if w["part"] == "order":
        from plotink import ebb_serial
        v, t = triple(w["version"]), triple(w["threshold"])
        obj = ebb3mon.monitored_class()()
        obj.parse_version(PRODUCT + vstr(v))
        got3 = obj.min_version(vstr(t))
        port = serialsim.FakePort(serialsim.Legacy2xBoard(version=vstr(v)), serialsim.EventLog())
        got2 = ebb_serial.min_version(port, vstr(t))
        ctx.case(["replay"], None)
        print("replay: %s >= %s -> ebb3 %r legacy %r" % (vstr(v), vstr(t), got3, got2))
        if got3 is not (v >= t) or got2 is not (v >= t):
            ctx.violation("version comparison not numeric", w)
    elif w["part"] == "handshake":
        scen = w["scenario"]
        handshake_case(ctx, ctx.rng, fixed=(scen["steps"][0], scen["board"], scen["device"]))
    else:
        gate = [g for g in GATES if g[0] == w["helper"]][0]
        gate_case(ctx, ctx.rng, fixed=(gate, triple(w["version"]), w["args"], w.get("unreadable") or False))
