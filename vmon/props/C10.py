"""C10 - Bezier subdivision refines the same curve until every piece is flat.

Monitor: icontract snapshot + post-condition on the real plot_utils.subdivideCubicPath:
original node objects survive in order with their points and outermost handles intact; the
new pieces between two original nodes are matched against a dyadic de Casteljau tree of the
ORIGINAL piece computed in exact rationals (so every inserted node lies on the original
curve, every piece is the original restricted to a dyadic interval, in order, tiling [0,1]);
both inner control points of every resulting piece lie within the flatness of its chord."""
import math
from fractions import Fraction

from .. import contracts
from .C09 import clearly, dist2_exact

LEVEL = "exploration"
THOROUGH_SHARDS = 16
RULE = ("seeded generator of node lists (1..12 nodes; already flat, arcs, S-curves, loops, cusps, "
        "coincident end points, handles equal to their nodes (straight lines), lattice coordinates, "
        "mixed) x flatness with flat/scale in [1e-5, 1]; one evaluation = one subdivideCubicPath "
        "call; distinct by (node list, flatness); non-trivial when the list has >= 2 nodes")
ASSUMPTIONS = ["finite control points; flatness > 0 with flatness / coordinate scale >= 1e-5 (smaller "
               "ratios need > 1e5 pieces per curve: excluded by budget)",
               "a new piece equals the exact dyadic restriction when all four control points agree "
               "within 1e-9 x coordinate scale (the code subdivides in floating point)",
               "'outer handles' = incoming handle of the first node and outgoing handle of the last"]
EPS_REL = Fraction(1, 10 ** 9)
MAX_DEPTH = 48
GUARD_CALLS = 2_000_000


def classify(rec):
    return None


class LoopGuard(Exception):
    pass


def F2(p):
    return (Fraction(p[0]), Fraction(p[1]))


def mid(a, b):
    return ((a[0] + b[0]) / 2, (a[1] + b[1]) / 2)


def split_half(b):
    p0, p1, p2, p3 = b
    m1, m2, m3 = mid(p0, p1), mid(p1, p2), mid(p2, p3)
    m4, m5 = mid(m1, m2), mid(m2, m3)
    m = mid(m4, m5)
    return (p0, m1, m4, m), (m, m5, m3, p3)


def same_piece(exact, piece, eps):
    for e, p in zip(exact, piece):
        if abs(e[0] - Fraction(p[0])) > eps or abs(e[1] - Fraction(p[1])) > eps:
            return False
    return True


def match_dyadic(exact, pieces, pos, eps, depth, lo, hi, intervals):
    """Consume pieces[pos:] against the dyadic tree of `exact`; returns new pos or -1."""
    if pos >= len(pieces):
        return -1
    if same_piece(exact, pieces[pos], eps):
        intervals.append((lo, hi))
        return pos + 1
    if depth >= MAX_DEPTH:
        return -1
    left, right = split_half(exact)
    m = (lo + hi) / 2
    pos = match_dyadic(left, pieces, pos, eps, depth + 1, lo, m, intervals)
    if pos < 0:
        return -1
    return match_dyadic(right, pieces, pos, eps, depth + 1, m, hi, intervals)


class Monitor:
    def __init__(self, ctx):
        self.ctx = ctx
        self.calls = 0
        self.mode = None        # None | "deep" (skip the Fraction dyadic match) | "exact" (strict flatness)

    def post(self, s_p, flat, OLD):
        ctx = self.ctx
        nodes_before, copy = OLD.before
        ctx.count("monitor:subdivideCubicPath evaluated")
        witness = {"fn": "subdivideCubicPath", "nodes": copy, "flat": flat,
                   "pieces_after": len(s_p) - 1, "mode": self.mode}
        coords = [abs(v) for node in copy for pt in node for v in pt]
        scale = max(coords + [1e-300])
        eps = EPS_REL * Fraction(scale)
        # 1. original node objects survive, in order
        pos, where = 0, []
        for node in nodes_before:
            while pos < len(s_p) and s_p[pos] is not node:
                pos += 1
            if pos == len(s_p):
                ctx.violation("an original node object did not survive in order", witness)
                return True
            where.append(pos)
            pos += 1
        if where and (where[0] != 0 or where[-1] != len(s_p) - 1):
            ctx.violation("nodes inserted outside the original end nodes", witness)
            return True
        for node, orig in zip(nodes_before, copy):
            if (node[1][0], node[1][1]) != tuple(orig[1]):
                ctx.violation("the point of an original node changed", witness)
                return True
        if nodes_before:
            if tuple(nodes_before[0][0]) != tuple(copy[0][0]) or tuple(nodes_before[-1][2]) != tuple(copy[-1][2]):
                ctx.violation("an outer handle of the path changed", witness)
                return True
        # 2. dyadic restriction of each original piece
        total_pieces = 0
        for k in range(len(copy) - 1 if self.mode != "deep" else 0):
            exact = (F2(copy[k][1]), F2(copy[k][2]), F2(copy[k + 1][0]), F2(copy[k + 1][1]))
            a, b = where[k], where[k + 1]
            pieces = [(s_p[i][1], s_p[i][2], s_p[i + 1][0], s_p[i + 1][1]) for i in range(a, b)]
            total_pieces += len(pieces)
            intervals = []
            end = match_dyadic(exact, pieces, 0, eps, 0, Fraction(0), Fraction(1), intervals)
            if end != len(pieces):
                witness.update(original_piece=k, new_pieces=[[list(map(float, p)) for p in pc] for pc in pieces[:6]],
                               matched=len(intervals))
                ctx.violation("new pieces are not the original piece restricted to dyadic intervals", witness)
                return True
            if len(pieces) > 1:
                ctx.tag("outcome:piece subdivided")
                ctx.extra["max_depth_seen"] = max(ctx.extra.get("max_depth_seen", 0),
                                                  max(int(round(-math.log2(float(h - l)))) for l, h in intervals))
            else:
                ctx.tag("outcome:piece left whole")
        ctx.count("monitor:pieces matched against the dyadic tree", total_pieces)
        # 3. flatness of every resulting piece
        limit = (Fraction(flat) * (1 + EPS_REL)) ** 2
        if self.mode == "exact":
            # constructed small-integer / dyadic inputs: every float operation of the library is
            # exact here, so "closer than the flatness" is decided strictly (distance == flatness fails)
            limit = Fraction(flat) ** 2
            ctx.count("monitor:strict flatness (exact arithmetic class) evaluated")
        if self.mode == "deep":
            ctx.count("monitor:deep subdivision evaluated (flatness, order and end nodes only)")
            ctx.extra["max_pieces_in_one_call"] = max(ctx.extra.get("max_pieces_in_one_call", 0), len(s_p) - 1)
        for i in range(len(s_p) - 1):
            p0, p1, p2, p3 = s_p[i][1], s_p[i][2], s_p[i + 1][0], s_p[i + 1][1]
            piece_limit = limit
            if self.mode != "exact":
                # the library measures in floats: at coordinate magnitude S a distance carries an absolute
                # rounding error of up to ~64 ulp(S) (see C09.band_abs) - it matters only when the chord is
                # more than ~1e9 flatnesses long
                scale = max(abs(float(c)) for pt in (p0, p1, p2, p3) for c in pt)
                piece_limit = (Fraction(flat) * (1 + EPS_REL) + 64 * Fraction(2.220446049250313e-16) * Fraction(scale)) ** 2
            for inner in (p1, p2):
                if self.mode != "exact" and clearly(inner, p0, p3, flat) == "below":
                    continue
                if dist2_exact(inner, p0, p3) >= piece_limit:
                    witness.update(piece_index=i, piece=[list(map(float, p)) for p in (p0, p1, p2, p3)])
                    ctx.violation("a control point is not within the flatness of its chord", witness)
                    return True
        ctx.count("monitor:pieces checked for flatness", max(len(s_p) - 1, 0))
        return True


def install(ctx):
    from plotink import plot_utils
    mon = Monitor(ctx)
    orig_pit = plot_utils.points_in_tolerance

    def guarded_pit(*args, **kwargs):
        mon.calls += 1
        if mon.calls > GUARD_CALLS:
            raise LoopGuard("monitor loop guard: %d flatness tests in one call" % mon.calls)
        return orig_pit(*args, **kwargs)

    plot_utils.points_in_tolerance = guarded_pit
    contracts._installed.append((plot_utils, "points_in_tolerance", orig_pit))

    def before(s_p):
        return (list(s_p), [[[float(pt[0]), float(pt[1])] if isinstance(pt[0], float) or isinstance(pt[1], float)
                              else [pt[0], pt[1]] for pt in node] for node in s_p])

    contracts.install(plot_utils, "subdivideCubicPath", post=mon.post, snapshots={"before": before}, ctx=ctx)
    return mon


# ---------------------------------------------------------------- generators
def gen_long_flat(rng):
    """A long, almost straight piece: chord 1e7.5 .. 1e10 times longer than the flatness, inner handles a
    fraction of the flatness to a few flatnesses off the chord (projecting inside it) - where a distance
    formula that subtracts two large, nearly equal numbers returns rounding noise."""
    length = rng.choice((100.0, 1000.0, 1e4, 12345.678))
    flat = length / 10 ** rng.uniform(7.5, 10)
    ang = rng.uniform(0, 2 * math.pi)
    ux, uy = math.cos(ang), math.sin(ang)
    ox, oy = rng.uniform(-50, 50), rng.uniform(-50, 50)
    nodes = []
    n = rng.choice((2, 2, 3))
    for i in range(n):
        px, py = ox + ux * length * i, oy + uy * length * i
        k_in, k_out = (rng.choice((0.3, 0.9, 1.5, 2.0, 3.0, 10.0)) * rng.choice((1, -1)) for _ in range(2))
        h_in = [px - ux * length / 3 - uy * k_in * flat, py - uy * length / 3 + ux * k_in * flat]
        h_out = [px + ux * length / 3 - uy * k_out * flat, py + uy * length / 3 + ux * k_out * flat]
        nodes.append([h_in, [px, py], h_out])
    return ["long almost-straight piece (chord / flatness 1e7.5 .. 1e10)"], nodes, flat


def gen_path(rng):
    if rng.random() < 0.035:
        return gen_long_flat(rng)
    c = rng.random()
    scale = rng.choice((1.0, 1.0, 10.0, 100.0, 1000.0, 0.01))
    n = rng.choice((1, 2, 2, 2, 3, 4, rng.randint(2, 12)))
    nodes = []

    def rnd():
        return [rng.uniform(-1, 1) * scale, rng.uniform(-1, 1) * scale]

    if c < 0.05:
        # a node repeated with retracted handles: the piece between the twins has all four
        # control points at one position (zero-length chord AND zero-length handles)
        cls = "repeated node (fully degenerate piece)"
        n = max(n, 2)
        style = rng.randrange(3)
        for i in range(n):
            p = rnd() if style else [float(rng.randint(-5, 5)), float(rng.randint(-5, 5))]
            nodes.append([rnd() if style == 1 else list(p), list(p), rnd() if style == 1 else list(p)])
        k = rng.randrange(n)
        twin = nodes[k][1]
        nodes[k][2] = list(twin)                                   # out-handle retracted
        nodes.insert(k + 1, [list(twin), list(twin), rnd() if style == 1 else list(twin)])
    elif c < 0.12:
        cls = "already flat (handles on the chord)"
        pts = [rnd() for _ in range(n)]
        for i, p in enumerate(pts):
            nxt = pts[min(i + 1, n - 1)]
            prv = pts[max(i - 1, 0)]
            nodes.append([[p[0] + (prv[0] - p[0]) / 3, p[1] + (prv[1] - p[1]) / 3], list(p),
                          [p[0] + (nxt[0] - p[0]) / 3, p[1] + (nxt[1] - p[1]) / 3]])
    elif c < 0.24:
        cls = "handles equal to their nodes (straight lines)"
        for _ in range(n):
            p = rnd()
            nodes.append([list(p), list(p), list(p)])
    elif c < 0.38:
        cls = "circular arcs"
        k = 0.5522847498307936
        r = scale
        quad = [([r, 0], [0, k * r]), ([0, r], [-k * r, 0]), ([-r, 0], [0, -k * r]), ([0, -r], [k * r, 0])]
        for i in range(n):
            p, t = quad[i % 4]
            nodes.append([[p[0] - t[0], p[1] - t[1]], list(p), [p[0] + t[0], p[1] + t[1]]])
    elif c < 0.50:
        cls = "S-curves"
        x = 0.0
        for i in range(n):
            p = [x, rng.uniform(-0.2, 0.2) * scale]
            h = rng.uniform(0.2, 1.5) * scale
            s = 1 if i % 2 else -1
            nodes.append([[p[0] - h * 0.3, p[1] - s * h], list(p), [p[0] + h * 0.3, p[1] + s * h]])
            x += rng.uniform(0.5, 2) * scale
    elif c < 0.62:
        cls = "loops (handles cross)"
        for i in range(n):
            p = rnd()
            nodes.append([[p[0] + 3 * scale, p[1] + rng.uniform(-1, 1) * scale], list(p),
                          [p[0] - 3 * scale, p[1] + rng.uniform(-1, 1) * scale]])
    elif c < 0.72:
        cls = "cusps"
        for i in range(n):
            p = rnd()
            q = rnd()
            nodes.append([list(q), list(p), list(q)])
    elif c < 0.80:
        cls = "coincident end points (closed piece)"
        p = rnd()
        for i in range(n):
            nodes.append([rnd(), list(p), rnd()])
    elif c < 0.90:
        cls = "integer lattice control points"
        for _ in range(n):
            nodes.append([[rng.randint(-8, 8), rng.randint(-8, 8)] for _ in range(3)])
        scale = 8.0
    else:
        cls = "random control points"
        for _ in range(n):
            nodes.append([rnd(), rnd(), rnd()])
    ratio = 10 ** rng.uniform(-5, 0)
    if rng.random() < 0.15:
        ratio = rng.choice((1e-5, 1e-3, 0.1, 1.0))
    flat = scale * ratio
    return [cls, "flat/scale=1e%d..1e%d" % (math.floor(math.log10(ratio)), math.floor(math.log10(ratio)) + 1)
            if ratio < 1 else "flat/scale=1"], nodes, flat


PYTH = [(3, 4, 5), (4, 3, 5), (5, 12, 13), (12, 5, 13), (8, 6, 10), (6, 8, 10), (0, 5, 5), (5, 0, 5), (0, 4, 4),
        (4, 0, 4), (8, 15, 17), (7, 24, 25), (0, 1, 1), (1, 0, 1)]


def gen_exact(rng):
    """A path of small-integer control points in which one inner control point lies at a distance
    EXACTLY equal to the flatness from its chord (beyond the far end, before the near end, or
    perpendicular to the interior) - 'closer than the flatness' must be decided strictly."""
    cx, cy, _cl = rng.choice(PYTH)
    sx, sy = rng.choice((1, -1)), rng.choice((1, -1))
    k = rng.choice((2, 4, 6))
    chord = (cx * sx * k, cy * sy * k)
    p0 = (rng.randint(-20, 20), rng.randint(-20, 20))
    p3 = (p0[0] + chord[0], p0[1] + chord[1])
    variant = rng.choice(("far end-cap", "near end-cap", "perpendicular"))
    dx, dy, length = rng.choice(PYTH)
    dx, dy = dx * rng.choice((1, -1)), dy * rng.choice((1, -1))
    m = rng.choice((1, 2, 3))
    dx, dy, length = dx * m, dy * m, length * m
    on_chord = (p0[0] + chord[0] // 2, p0[1] + chord[1] // 2)
    if variant == "far end-cap":
        if dx * chord[0] + dy * chord[1] < 0:
            dx, dy = -dx, -dy
        p1, p2 = on_chord, (p3[0] + dx, p3[1] + dy)
    elif variant == "near end-cap":
        if dx * chord[0] + dy * chord[1] < 0:
            dx, dy = -dx, -dy
        p1, p2 = (p0[0] - dx, p0[1] - dy), on_chord
    else:
        # perpendicular offset of exact length from the chord's midpoint
        px, py, plen = -cy * sy, cx * sx, _cl
        p1, p2 = (on_chord[0] + px * m, on_chord[1] + py * m), on_chord
        length = plen * m
    off = rng.choice((0, 0, 0, 1, -1))           # exactly on the limit, or one unit either side
    flat = length + off
    if flat <= 0:
        flat = length
    if rng.random() < 0.5:                      # the mirror image: swap the roles of the two handles
        p0, p1, p2, p3 = p3, p2, p1, p0
    nodes = [[list(p0), list(p0), list(p1)], [list(p2), list(p3), list(p3)]]
    if rng.random() < 0.4:                      # embedded in a longer path
        q = [p3[0] + rng.randint(1, 9), p3[1] + rng.randint(1, 9)]
        nodes.append([list(q), list(q), list(q)])
    return ["exact arithmetic: control point at distance %s the flatness" %
            ("exactly" if off == 0 else "just below" if off > 0 else "just above"), "exact:" + variant], nodes, float(flat)


def gen_revisit(rng):
    """A tool path that comes back to a node it has already visited (an equal node - same handles and
    point, tuples or lists - and sometimes the very same object) and leaves it on a curved piece."""
    scale = rng.choice((1.0, 10.0, 100.0))
    mk = tuple if rng.random() < 0.6 else list

    def corner(p):
        return [mk(p), mk(p), mk(p)]

    def rnd():
        return (round(rng.uniform(-1, 1) * scale, 2), round(rng.uniform(-1, 1) * scale, 2))
    a = rnd()
    nodes = [corner(a)]
    for _ in range(rng.randint(1, 3)):
        b = rnd()
        nodes.append(corner(b) if rng.random() < 0.7 else [mk(rnd()), mk(b), mk(rnd())])
    # back at `a`: an equal copy of the first corner (or the same object), then a bent piece
    back = corner(a) if rng.random() < 0.8 else nodes[0]
    nodes.append(back)
    far = rnd()
    nodes.append([mk((far[0] + scale * rng.uniform(0.5, 2), far[1] - scale * rng.uniform(0.5, 2))), mk(far), mk(far)])
    if rng.random() < 0.5:
        nodes.append(corner(rnd()))
    flat = scale * rng.choice((0.003, 0.01, 0.03, 0.1))
    return ["path revisits a node equal to an earlier node"], nodes, flat


def gen_deep(rng):
    """One arch whose first sub-piece needs more than 16 successive halvings."""
    span = rng.choice((8192.0, 4096.0, 1000.0, 3.0))
    height = span * rng.choice((0.25, 0.5, 1.0))
    depth = rng.choice((17, 17, 18))
    flat = 0.75 * height / 4 ** depth * rng.uniform(0.7, 1.3)
    nodes = [[[0.0, 0.0], [0.0, 0.0], [span * rng.uniform(0.2, 0.4), height]],
             [[span * rng.uniform(0.6, 0.8), height * rng.uniform(0.6, 1.0)], [span, 0.0], [span, 0.0]]]
    return ["deep subdivision (> 16 successive halvings)"], nodes, flat


def one_case(ctx, mon, nodes, flat):
    from plotink import plot_utils
    mon.calls = 0
    orig = [[list(pt) for pt in node] for node in nodes]
    try:
        plot_utils.subdivideCubicPath(nodes, flat)
    except LoopGuard as exc:
        ctx.violation("subdivision did not terminate within the monitor's cap", {
            "fn": "subdivideCubicPath", "nodes": orig, "flat": flat, "exception": repr(exc)})
    except Exception as exc:
        ctx.violation("exception", {"fn": "subdivideCubicPath", "nodes": orig, "flat": flat,
                                    "exception": repr(exc)})


def run(ctx):
    from .. import wtests
    wtests.run(ctx)
    mon = install(ctx)
    rng = ctx.rng
    n = ctx.budget(1_800, 30_000)
    for _ in range(n):
        if not ctx.alive():
            break
        if rng.random() < 0.05:
            from .. import noise
            noise.burst(ctx, rng, exclude=('simplify', 'bezier'))
        if rng.random() < 0.02:
            from ..gen_stepper import failed_call
            from plotink import plot_utils as _pu
            failed_call(rng, _pu.subdivideCubicPath, 2)
            mon.calls = 0
            ctx.tag("history: after a failed call (malformed arguments)")
        classes, nodes, flat = gen_path(rng)
        ln = len(nodes)
        if 2 <= ln <= 12 and rng.random() < 0.12 and not classes[0].startswith(("long almost-straight", "deep subdivision")):
            # one point OBJECT (a list) in several slots of the node list: both handles of a piece, a closing
            # node that reuses the first node's handle, any two slots - a path like any other (its values are
            # what they are); splitting one piece must not move a point that another slot still refers to
            nodes = [[list(pt) for pt in node] for node in nodes]
            for _ in range(rng.randint(1, 3)):
                if rng.random() < 0.5:
                    i = rng.randrange(ln - 1)
                    nodes[i + 1][0] = nodes[i][2]
                else:
                    nodes[rng.randrange(ln)][rng.randrange(3)] = nodes[rng.randrange(ln)][rng.randrange(3)]
            classes.append("shape: one point object (list) occupies several slots of the node list")
        classes.append("nodes=%s" % (str(ln) if ln <= 2 else "3..12"))
        key = (tuple(tuple(tuple(pt) for pt in node) for node in nodes), flat)
        ctx.case(classes, key, nontrivial=ln >= 2)
        if ln <= 3:
            ctx.sample({"nodes": nodes, "flat": flat}, tag=classes[0], per_tag=1)
        pristine = [[list(pt) for pt in node] for node in nodes]
        if classes[0].startswith("long almost-straight"):
            # flatness, order and end nodes only: matching sub-pieces of an almost straight line against
            # the dyadic tree is ambiguous by construction (they all look alike) and very slow
            mon.mode = "deep"
            one_case(ctx, mon, nodes, flat)
            mon.mode = None
            continue
        one_case(ctx, mon, nodes, flat)
        if classes[0] == "integer lattice control points":
            # history: the same path with -1 and -2 exchanged (hash(-1) == hash(-2) in CPython), same flatness
            swap = {-1: -2, -2: -1}
            twin = [[[swap.get(v, v) for v in pt] for pt in node] for node in pristine]
            if twin != pristine:
                ctx.case(["history: the -1/-2 twin of the previous path, same flatness"],
                         (tuple(tuple(tuple(pt) for pt in node) for node in twin), flat, "twin"))
                one_case(ctx, mon, twin, flat)
        if rng.random() < 0.15 and len(nodes) < 3000:
            # history: the already subdivided list again, with the same and with a finer flatness
            for flat2 in (flat, flat / rng.choice((2.0, 3.0, 7.5))):
                if len(nodes) > 20000:
                    break
                ctx.case(["history: subdividing an already subdivided path again"],
                         (tuple(tuple(tuple(pt) for pt in node) for node in nodes[:40]), flat2, len(nodes)))
                one_case(ctx, mon, nodes, flat2)
    # constructed classes with their own monitor modes
    for _ in range(ctx.budget(1500, 15000)):
        classes, nodes, flat = gen_exact(rng)
        ctx.case(classes, (tuple(tuple(tuple(pt) for pt in node) for node in nodes), flat))
        ctx.sample({"nodes": nodes, "flat": flat}, tag=classes[1], per_tag=1)
        mon.mode = "exact"
        one_case(ctx, mon, nodes, flat)
        mon.mode = None
    for _ in range(ctx.budget(600, 6000)):
        classes, nodes, flat = gen_revisit(rng)
        ctx.case(classes, (tuple(tuple(tuple(pt) for pt in node) for node in nodes), flat))
        ctx.sample({"nodes": [[list(pt) for pt in node] for node in nodes], "flat": flat}, tag=classes[0], per_tag=1)
        one_case(ctx, mon, nodes, flat)
    # a flat piece, then its -1/-2 twin that is NOT flat at the same flatness (separate calls and
    # as consecutive pieces of one path); ints and floats
    for _ in range(ctx.budget(300, 3000)):
        horizontal = rng.random() < 0.5
        num = float if rng.random() < 0.5 else int
        length = rng.choice((3, 4, 6, 9))
        x0, y0 = rng.randint(-4, 4), 0

        def piece(off, _h=horizontal, _n=num, _l=length, _x=x0, _y=y0):
            pts = [(_x, _y), (_x + 1, _y + off), (_x + _l - 1, _y + off), (_x + _l, _y)]
            if not _h:
                pts = [(b, a) for a, b in pts]
            return [[_n(a), _n(b)] for a, b in pts]
        first_off, second_off = rng.choice(((-1, -2), (-1, -2), (-2, -1)))
        flat_v = 1.5
        paths = []
        for off in (first_off, second_off):
            p0, p1, p2, p3 = piece(off)
            paths.append([[list(p0), list(p0), list(p1)], [list(p2), list(p3), list(p3)]])
        if rng.random() < 0.3:          # both in one path: ... P then P' joined end to start is not possible
            paths = [paths[0], paths[1], paths[0]]
        for nodes_t in paths:
            ctx.case(["history: a flat piece and its -1/-2 twin at the same flatness"],
                     (tuple(tuple(tuple(pt) for pt in node) for node in nodes_t), flat_v, len(paths)))
            one_case(ctx, mon, [[list(pt) for pt in node] for node in nodes_t], flat_v)
    for _ in range(ctx.budget(1, 3)):
        if not ctx.alive():
            break
        classes, nodes, flat = gen_deep(rng)
        ctx.case(classes, (tuple(tuple(tuple(pt) for pt in node) for node in nodes), flat))
        mon.mode = "deep"
        one_case(ctx, mon, nodes, flat)
        mon.mode = None
    ctx.extra["max_pieces_in_one_call"] = [ctx.extra.get("max_pieces_in_one_call", 0)]
    ctx.extra["max_depth_seen"] = [ctx.extra.get("max_depth_seen", 0)]
    for cls in ("already flat (handles on the chord)", "handles equal to their nodes (straight lines)",
                "circular arcs", "S-curves", "loops (handles cross)", "cusps",
                "coincident end points (closed piece)", "integer lattice control points",
                "repeated node (fully degenerate piece)", "random control points",
                "history: subdividing an already subdivided path again",
                "history: the -1/-2 twin of the previous path, same flatness",
                "history: a flat piece and its -1/-2 twin at the same flatness",
                "path revisits a node equal to an earlier node", "nodes=1", "nodes=2", "nodes=3..12",
                "flat/scale=1e-5..1e-4", "flat/scale=1e-4..1e-3", "flat/scale=1e-3..1e-2",
                "flat/scale=1e-2..1e-1", "flat/scale=1e-1..1e0",
                "outcome:piece subdivided", "outcome:piece left whole"):
        ctx.need(cls, 30)
    for cls in ("exact arithmetic: control point at distance exactly the flatness", "exact:far end-cap",
                "exact:near end-cap", "exact:perpendicular"):
        ctx.need(cls, 100)
    ctx.need("shape: one point object (list) occupies several slots of the node list", 100)
    ctx.need("deep subdivision (> 16 successive halvings)", 1)
    ctx.need("monitor:deep subdivision evaluated (flatness, order and end nodes only)", 1)
    ctx.need("long almost-straight piece (chord / flatness 1e7.5 .. 1e10)", 40)
    ctx.need("monitor:subdivideCubicPath evaluated", 1_000)
    ctx.need("history: after a failed call (malformed arguments)", 10)
    ctx.need("monitor:pieces matched against the dyadic tree", 30_000)
    ctx.need("monitor:pieces checked for flatness", 30_000)
    ctx.need("history: after calls to other library functions", 40)
    contracts.uninstall_all()


def replay(ctx, rec):
    mon = install(ctx)
    w = rec["witness"]
    ctx.case(["replay"], None)
    mon.mode = w.get("mode")
    one_case(ctx, mon, [[list(pt) for pt in node] for node in w["nodes"]], w["flat"])
    contracts.uninstall_all()
