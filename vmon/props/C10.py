"""C10 - Bezier subdivision refines the same curve until every piece is flat.

Monitor: icontract snapshot + post-condition on the real plot_utils.subdivideCubicPath:
original node objects survive in order with their points and outermost handles intact; the
new pieces between two original nodes are matched against a dyadic de Casteljau tree of the
ORIGINAL piece computed in exact rationals (so every inserted node lies on the original
curve, every piece is the original restricted to a dyadic interval, in order, tiling [0,1]);
both inner control points of every resulting piece lie within the flatness of its chord."""
import math
from fractions import Fraction

from .. import contracts
from .C09 import clearly, dist2_exact

LEVEL = "exploration"
THOROUGH_SHARDS = 16
RULE = ("seeded generator of node lists (1..12 nodes; already flat, arcs, S-curves, loops, cusps, "
        "coincident end points, handles equal to their nodes (straight lines), lattice coordinates, "
        "mixed) x flatness with flat/scale in [1e-5, 1]; one evaluation = one subdivideCubicPath "
        "call; distinct by (node list, flatness); non-trivial when the list has >= 2 nodes")
ASSUMPTIONS = ["finite control points; flatness > 0 with flatness / coordinate scale >= 1e-5 (smaller "
               "ratios need > 1e5 pieces per curve: excluded by budget)",
               "a new piece equals the exact dyadic restriction when all four control points agree "
               "within 1e-9 x coordinate scale (the code subdivides in floating point)",
               "'outer handles' = incoming handle of the first node and outgoing handle of the last"]
EPS_REL = Fraction(1, 10 ** 9)
MAX_DEPTH = 48
GUARD_CALLS = 2_000_000


def classify(rec):
    return None


class LoopGuard(Exception):
    pass


def F2(p):
    return (Fraction(p[0]), Fraction(p[1]))


def mid(a, b):
    return ((a[0] + b[0]) / 2, (a[1] + b[1]) / 2)


def split_half(b):
    p0, p1, p2, p3 = b
    m1, m2, m3 = mid(p0, p1), mid(p1, p2), mid(p2, p3)
    m4, m5 = mid(m1, m2), mid(m2, m3)
    m = mid(m4, m5)
    return (p0, m1, m4, m), (m, m5, m3, p3)


def same_piece(exact, piece, eps):
    for e, p in zip(exact, piece):
        if abs(e[0] - Fraction(p[0])) > eps or abs(e[1] - Fraction(p[1])) > eps:
            return False
    return True


def match_dyadic(exact, pieces, pos, eps, depth, lo, hi, intervals):
    """Consume pieces[pos:] against the dyadic tree of `exact`; returns new pos or -1."""
    if pos >= len(pieces):
        return -1
    if same_piece(exact, pieces[pos], eps):
        intervals.append((lo, hi))
        return pos + 1
    if depth >= MAX_DEPTH:
        return -1
    left, right = split_half(exact)
    m = (lo + hi) / 2
    pos = match_dyadic(left, pieces, pos, eps, depth + 1, lo, m, intervals)
    if pos < 0:
        return -1
    return match_dyadic(right, pieces, pos, eps, depth + 1, m, hi, intervals)


class Monitor:
    def __init__(self, ctx):
        self.ctx = ctx
        self.calls = 0

    def post(self, s_p, flat, OLD):
        ctx = self.ctx
        nodes_before, copy = OLD.before
        ctx.count("monitor:subdivideCubicPath evaluated")
        witness = {"fn": "subdivideCubicPath", "nodes": copy, "flat": flat,
                   "pieces_after": len(s_p) - 1}
        coords = [abs(v) for node in copy for pt in node for v in pt]
        scale = max(coords + [1e-300])
        eps = EPS_REL * Fraction(scale)
        # 1. original node objects survive, in order
        pos, where = 0, []
        for node in nodes_before:
            while pos < len(s_p) and s_p[pos] is not node:
                pos += 1
            if pos == len(s_p):
                ctx.violation("an original node object did not survive in order", witness)
                return True
            where.append(pos)
            pos += 1
        if where and (where[0] != 0 or where[-1] != len(s_p) - 1):
            ctx.violation("nodes inserted outside the original end nodes", witness)
            return True
        for node, orig in zip(nodes_before, copy):
            if (node[1][0], node[1][1]) != tuple(orig[1]):
                ctx.violation("the point of an original node changed", witness)
                return True
        if nodes_before:
            if tuple(nodes_before[0][0]) != tuple(copy[0][0]) or tuple(nodes_before[-1][2]) != tuple(copy[-1][2]):
                ctx.violation("an outer handle of the path changed", witness)
                return True
        # 2. dyadic restriction of each original piece
        total_pieces = 0
        for k in range(len(copy) - 1):
            exact = (F2(copy[k][1]), F2(copy[k][2]), F2(copy[k + 1][0]), F2(copy[k + 1][1]))
            a, b = where[k], where[k + 1]
            pieces = [(s_p[i][1], s_p[i][2], s_p[i + 1][0], s_p[i + 1][1]) for i in range(a, b)]
            total_pieces += len(pieces)
            intervals = []
            end = match_dyadic(exact, pieces, 0, eps, 0, Fraction(0), Fraction(1), intervals)
            if end != len(pieces):
                witness.update(original_piece=k, new_pieces=[[list(map(float, p)) for p in pc] for pc in pieces[:6]],
                               matched=len(intervals))
                ctx.violation("new pieces are not the original piece restricted to dyadic intervals", witness)
                return True
            if len(pieces) > 1:
                ctx.tag("outcome:piece subdivided")
                ctx.extra["max_depth_seen"] = max(ctx.extra.get("max_depth_seen", 0),
                                                  max(int(round(-math.log2(float(h - l)))) for l, h in intervals))
            else:
                ctx.tag("outcome:piece left whole")
        ctx.count("monitor:pieces matched against the dyadic tree", total_pieces)
        # 3. flatness of every resulting piece
        limit = (Fraction(flat) * (1 + EPS_REL)) ** 2
        for i in range(len(s_p) - 1):
            p0, p1, p2, p3 = s_p[i][1], s_p[i][2], s_p[i + 1][0], s_p[i + 1][1]
            for inner in (p1, p2):
                if clearly(inner, p0, p3, flat) == "below":
                    continue
                if dist2_exact(inner, p0, p3) >= limit:
                    witness.update(piece_index=i, piece=[list(map(float, p)) for p in (p0, p1, p2, p3)])
                    ctx.violation("a control point is not within the flatness of its chord", witness)
                    return True
        ctx.count("monitor:pieces checked for flatness", max(len(s_p) - 1, 0))
        return True


def install(ctx):
    from plotink import plot_utils
    mon = Monitor(ctx)
    orig_pit = plot_utils.points_in_tolerance

    def guarded_pit(*args, **kwargs):
        mon.calls += 1
        if mon.calls > GUARD_CALLS:
            raise LoopGuard("monitor loop guard: %d flatness tests in one call" % mon.calls)
        return orig_pit(*args, **kwargs)

    plot_utils.points_in_tolerance = guarded_pit
    contracts._installed.append((plot_utils, "points_in_tolerance", orig_pit))

    def before(s_p):
        return (list(s_p), [[[float(pt[0]), float(pt[1])] if isinstance(pt[0], float) or isinstance(pt[1], float)
                              else [pt[0], pt[1]] for pt in node] for node in s_p])

    contracts.install(plot_utils, "subdivideCubicPath", post=mon.post, snapshots={"before": before}, ctx=ctx)
    return mon


# ---------------------------------------------------------------- generators
def gen_path(rng):
    c = rng.random()
    scale = rng.choice((1.0, 1.0, 10.0, 100.0, 1000.0, 0.01))
    n = rng.choice((1, 2, 2, 2, 3, 4, rng.randint(2, 12)))
    nodes = []

    def rnd():
        return [rng.uniform(-1, 1) * scale, rng.uniform(-1, 1) * scale]

    if c < 0.05:
        # a node repeated with retracted handles: the piece between the twins has all four
        # control points at one position (zero-length chord AND zero-length handles)
        cls = "repeated node (fully degenerate piece)"
        n = max(n, 2)
        style = rng.randrange(3)
        for i in range(n):
            p = rnd() if style else [float(rng.randint(-5, 5)), float(rng.randint(-5, 5))]
            nodes.append([rnd() if style == 1 else list(p), list(p), rnd() if style == 1 else list(p)])
        k = rng.randrange(n)
        twin = nodes[k][1]
        nodes[k][2] = list(twin)                                   # out-handle retracted
        nodes.insert(k + 1, [list(twin), list(twin), rnd() if style == 1 else list(twin)])
    elif c < 0.12:
        cls = "already flat (handles on the chord)"
        pts = [rnd() for _ in range(n)]
        for i, p in enumerate(pts):
            nxt = pts[min(i + 1, n - 1)]
            prv = pts[max(i - 1, 0)]
            nodes.append([[p[0] + (prv[0] - p[0]) / 3, p[1] + (prv[1] - p[1]) / 3], list(p),
                          [p[0] + (nxt[0] - p[0]) / 3, p[1] + (nxt[1] - p[1]) / 3]])
    elif c < 0.24:
        cls = "handles equal to their nodes (straight lines)"
        for _ in range(n):
            p = rnd()
            nodes.append([list(p), list(p), list(p)])
    elif c < 0.38:
        cls = "circular arcs"
        k = 0.5522847498307936
        r = scale
        quad = [([r, 0], [0, k * r]), ([0, r], [-k * r, 0]), ([-r, 0], [0, -k * r]), ([0, -r], [k * r, 0])]
        for i in range(n):
            p, t = quad[i % 4]
            nodes.append([[p[0] - t[0], p[1] - t[1]], list(p), [p[0] + t[0], p[1] + t[1]]])
    elif c < 0.50:
        cls = "S-curves"
        x = 0.0
        for i in range(n):
            p = [x, rng.uniform(-0.2, 0.2) * scale]
            h = rng.uniform(0.2, 1.5) * scale
            s = 1 if i % 2 else -1
            nodes.append([[p[0] - h * 0.3, p[1] - s * h], list(p), [p[0] + h * 0.3, p[1] + s * h]])
            x += rng.uniform(0.5, 2) * scale
    elif c < 0.62:
        cls = "loops (handles cross)"
        for i in range(n):
            p = rnd()
            nodes.append([[p[0] + 3 * scale, p[1] + rng.uniform(-1, 1) * scale], list(p),
                          [p[0] - 3 * scale, p[1] + rng.uniform(-1, 1) * scale]])
    elif c < 0.72:
        cls = "cusps"
        for i in range(n):
            p = rnd()
            q = rnd()
            nodes.append([list(q), list(p), list(q)])
    elif c < 0.80:
        cls = "coincident end points (closed piece)"
        p = rnd()
        for i in range(n):
            nodes.append([rnd(), list(p), rnd()])
    elif c < 0.90:
        cls = "integer lattice control points"
        for _ in range(n):
            nodes.append([[rng.randint(-8, 8), rng.randint(-8, 8)] for _ in range(3)])
        scale = 8.0
    else:
        cls = "random control points"
        for _ in range(n):
            nodes.append([rnd(), rnd(), rnd()])
    ratio = 10 ** rng.uniform(-5, 0)
    if rng.random() < 0.15:
        ratio = rng.choice((1e-5, 1e-3, 0.1, 1.0))
    flat = scale * ratio
    return [cls, "flat/scale=1e%d..1e%d" % (math.floor(math.log10(ratio)), math.floor(math.log10(ratio)) + 1)
            if ratio < 1 else "flat/scale=1"], nodes, flat


def one_case(ctx, mon, nodes, flat):
    from plotink import plot_utils
    mon.calls = 0
    orig = [[list(pt) for pt in node] for node in nodes]
    try:
        plot_utils.subdivideCubicPath(nodes, flat)
    except LoopGuard as exc:
        ctx.violation("subdivision did not terminate within the monitor's cap", {
            "fn": "subdivideCubicPath", "nodes": orig, "flat": flat, "exception": repr(exc)})
    except Exception as exc:
        ctx.violation("exception", {"fn": "subdivideCubicPath", "nodes": orig, "flat": flat,
                                    "exception": repr(exc)})


def run(ctx):
    mon = install(ctx)
    rng = ctx.rng
    n = ctx.budget(1_800, 30_000)
    for _ in range(n):
        if not ctx.alive():
            break
        classes, nodes, flat = gen_path(rng)
        ln = len(nodes)
        classes.append("nodes=%s" % (str(ln) if ln <= 2 else "3..12"))
        key = (tuple(tuple(tuple(pt) for pt in node) for node in nodes), flat)
        ctx.case(classes, key, nontrivial=ln >= 2)
        if ln <= 3:
            ctx.sample({"nodes": nodes, "flat": flat}, tag=classes[0], per_tag=1)
        one_case(ctx, mon, nodes, flat)
    ctx.extra["max_depth_seen"] = [ctx.extra.get("max_depth_seen", 0)]
    for cls in ("already flat (handles on the chord)", "handles equal to their nodes (straight lines)",
                "circular arcs", "S-curves", "loops (handles cross)", "cusps",
                "coincident end points (closed piece)", "integer lattice control points",
                "repeated node (fully degenerate piece)", "random control points", "nodes=1", "nodes=2", "nodes=3..12",
                "flat/scale=1e-5..1e-4", "flat/scale=1e-4..1e-3", "flat/scale=1e-3..1e-2",
                "flat/scale=1e-2..1e-1", "flat/scale=1e-1..1e0",
                "outcome:piece subdivided", "outcome:piece left whole"):
        ctx.need(cls, 30)
    ctx.need("monitor:subdivideCubicPath evaluated", 1_000)
    ctx.need("monitor:pieces matched against the dyadic tree", 30_000)
    ctx.need("monitor:pieces checked for flatness", 30_000)
    contracts.uninstall_all()


def replay(ctx, rec):
    mon = install(ctx)
    w = rec["witness"]
    ctx.case(["replay"], None)
    one_case(ctx, mon, [[list(pt) for pt in node] for node in w["nodes"]], w["flat"])
    contracts.uninstall_all()
