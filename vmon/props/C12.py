"""C12 - length parsing and unit conversion: mutually consistent, SVG units at 96 px/in.

Monitors: icontract post-conditions on the real parseLengthWithUnits, unitsToUserUnits,
userUnitToUnits, getLength and getLengthInches; the oracle is an independent unit table
in exact rationals; the driver adds the cross-function (round-trip / agreement) checks."""
import re
from fractions import Fraction

from .. import contracts

LEVEL = "exploration"
THOROUGH_SHARDS = 8
RULE = ("seeded generator: numeral (integers, decimals, leading +/-, '.5', '5.', e/E exponent forms, "
        "many-digit) x unit suffix (none, px, in, mm, cm, pt, pc, Q, q, %) x surrounding / inner "
        "whitespace, plus malformed classes (unsupported units em/ex/rem/vw/vh/ch/deg, unit only, "
        "empty, double sign, two numbers, trailing garbage); distinct by the exact string; "
        "non-trivial when it carries a unit suffix or is malformed")
ASSUMPTIONS = ["numerals are finite decimal/scientific literals (spellings of inf/nan and '_' digit "
               "separators are not numerals and are not generated)",
               "independent unit table: in=96, mm=96/25.4, cm=96/2.54, pt=96/72, pc=96/6, Q=96/101.6",
               "the % round trip is checked without a reference length (value/100 and back)"]

FACTOR = {"": Fraction(1), "px": Fraction(1), "in": Fraction(96), "mm": Fraction(960, 254),
          "cm": Fraction(9600, 254), "pt": Fraction(96, 72), "pc": Fraction(16),
          "Q": Fraction(960, 1016), "q": Fraction(960, 1016)}
SUPPORTED = list(FACTOR) + ["%"]
UNSUPPORTED = ["em", "ex", "rem", "vw", "vh", "ch", "deg", "m", "ft", "pxx", "i n", "Mm", "IN", "PX"]
REL = 1e-12


def classify(rec):
    return None


def close(a, b, rel=REL):
    if a is None or b is None:
        return a is b
    return abs(a - b) <= rel * max(abs(a), abs(b), 1e-300)


class Stub:
    """Minimal stand-in for the inkex effect object the attribute readers expect."""

    def __init__(self, attrs):
        self.attrs = attrs
        self.document = self

    def getroot(self):
        return self

    def get(self, name, default=None):
        return self.attrs.get(name, default)


def exact_value(num):
    """The numeral as an exact rational - except that an exponent of more than a few thousand digits' worth
    is not expanded (10**(10**19) does not fit anywhere): such numerals are generated only with a value that
    is zero or underflows to zero, which is what is returned for them."""
    m = re.search(r"[eE]([+-]?\d+)$", num)
    if m and len(m.group(1).lstrip("+-")) > 5:
        return Fraction(0)
    return Fraction(num)


def gen_numeral(rng):
    c = rng.randrange(16)
    if c >= 12:
        # every feature of the SVG number grammar chosen independently, so that each COMBINATION occurs
        # ('.5e3', '5.E-2', '007.50e+0'): [digits][.][digits][(e|E)[sign]digits] with at least one mantissa digit
        digs = lambda lo, hi: "".join(rng.choice("0123456789") for _ in range(rng.randint(lo, hi)))
        ip = digs(1, 5) if rng.random() < 0.6 else ""
        fp = digs(1, 5) if (not ip or rng.random() < 0.6) else ""
        s = ip + ("." if (fp or rng.random() < 0.3) else "") + fp
        if rng.random() < 0.6:
            s += rng.choice("eE") + rng.choice(("", "+", "-")) + digs(1, 2)
    elif c == 0:
        s = str(rng.randint(0, 10 ** rng.randint(1, 9)))
    elif c == 1:
        s = "%d.%s" % (rng.randint(0, 9999), "".join(rng.choice("0123456789") for _ in range(rng.randint(1, 12))))
    elif c == 2:
        s = "." + "".join(rng.choice("0123456789") for _ in range(rng.randint(1, 6)))
    elif c == 3:
        s = "%d." % rng.randint(0, 9999)
    elif c == 4:
        s = "%de%s%d" % (rng.randint(1, 999), rng.choice(("", "+", "-")), rng.randint(0, 12))
    elif c == 5:
        s = "%d.%dE%s%d" % (rng.randint(0, 99), rng.randint(0, 999), rng.choice(("", "+", "-")), rng.randint(0, 9))
    elif c == 6:
        s = rng.choice(("0", "0.0", "00012", "1", "96", "25.4", "2.54", "72", "6", "100", "210", "297"))
    elif c == 7:
        s = repr(rng.uniform(0, 1e4))
    elif c == 8:
        s = repr(rng.uniform(0, 1e-3))
    elif c == 9:
        s = repr(rng.uniform(0, 1e12))
    elif c == 10:
        s = "%.3f" % rng.uniform(0, 5000)
    else:
        s = str(rng.randint(0, 20))
    if rng.random() < 0.03:
        # finite numerals with absurdly long exponents: a zero mantissa with any exponent is 0, a tiny
        # mantissa with an exponent of -10^19 underflows to 0.0 - float() reads both; number parsers of
        # other libraries (decimal: exponent limit ~9.2e18) refuse them
        big = rng.choice(("9999999999999999999", "12345678901234567890", "100000000000000000000000",
                          "999999999999999999", "9223372036854775808"))
        s = rng.choice(("0e" + big, "0.0E+" + big, "0e-" + big, "1e-" + big, "7.25E-" + big, "00e" + big))
    sign = rng.random()
    if sign < 0.15:
        s = "-" + s
    elif sign < 0.25:
        s = "+" + s
    return s


def gen_ws(rng, p=0.3):
    if rng.random() > p:
        return ""
    return "".join(rng.choice(" \t\n ") for _ in range(rng.randint(1, 3)))


def gen_case(rng):
    """(class, string, numeral | None, unit | None)"""
    c = rng.random()
    if c < 0.72:
        num = gen_numeral(rng)
        unit = rng.choice(SUPPORTED)
        inner = gen_ws(rng, 0.15)
        text = gen_ws(rng) + num + inner + unit + gen_ws(rng)
        return "valid:%s" % (unit or "no unit"), text, num, unit
    c = rng.randrange(8)
    if c == 0 and rng.random() < 0.5:
        return "malformed:unit letters repeated", gen_ws(rng) + gen_numeral(rng) + rng.choice(
            ("mmm", "mmcm", "ppx", "pxpx", "xpx", "iin", "nin", "inin", "tpt", "ptpt", "cpc", "pcpc", "QQ", "qq", "%%",
             "ccm", "mcm", "cmcm", "ppt", "ppc", "mmmm")) + gen_ws(rng), None, None
    if c == 0:
        return "malformed:unsupported unit", gen_ws(rng) + gen_numeral(rng) + rng.choice(UNSUPPORTED) + gen_ws(rng), None, None
    if c == 1:
        return "malformed:unit only", gen_ws(rng) + rng.choice(["px", "in", "mm", "cm", "pt", "pc", "Q", "q", "%"]) + gen_ws(rng), None, None
    if c == 2:
        return "malformed:empty", rng.choice(("", " ", "\t", "  \n")), None, None
    if c == 3:
        return "malformed:double sign", rng.choice(("--", "+-", "-+", "++")) + gen_numeral(rng).lstrip("+-") + rng.choice(SUPPORTED), None, None
    if c == 4:
        return "malformed:two numbers", gen_numeral(rng) + rng.choice((" ", ",", ";")) + gen_numeral(rng) + rng.choice(SUPPORTED), None, None
    if c == 5:
        return "malformed:words", rng.choice(("auto", "none", "abc", "e5", "1e", "1e+", ".", "-", "+", "mmm", "1..2", "1.2.3", "0x10", "1,5", "five")) + rng.choice(("", "mm", "px")), None, None
    if c == 6:
        return "malformed:unit then number", rng.choice(("mm", "px", "in", "%")) + gen_numeral(rng), None, None
    return "malformed:exponent garbage", gen_numeral(rng).lstrip("+-") + rng.choice(("e", "E", "e+", "ee5", "e5.5")) + rng.choice(("", "mm")), None, None


class Monitor:
    def __init__(self, ctx):
        self.ctx = ctx
        self.expect = None          # (numeral, unit) or ("malformed",) for the string being driven
        self.text = None
        self.inner = False          # white space between numeral and unit: a spelling the statement does not
        #                             cover (SVG does not allow it) - the right value or None are both accepted

    def _fail(self, fn, got, want, **kw):
        w = {"fn": fn, "text": self.text, "got": got, "expected": want}
        w.update(kw)
        self.ctx.violation(fn, w)

    def post_parse(self, string_to_parse, result):
        if self.expect is None or string_to_parse != self.text:
            self.ctx.count("skipped:call not from the driver")
            return True
        self.ctx.count("monitor:parseLengthWithUnits evaluated")
        if self.expect[0] is None:
            if result != (None, None):
                self._fail("parseLengthWithUnits", result, [None, None])
            return True
        num, unit = self.expect
        if self.inner and result == (None, None):
            self.ctx.count("accepted: numeral and unit separated by white space rejected as a spelling")
            return True
        want_units = {"": ("px", ""), "q": ("Q", "q")}.get(unit, (unit,))
        ok = isinstance(result, tuple) and len(result) == 2 and \
            isinstance(result[0], float) and result[0] == float(num) and result[1] in want_units
        if not ok:
            self._fail("parseLengthWithUnits", result, [float(num), want_units[0]])
        return True

    def post_to_uu(self, input_string, percent_ref, result):
        if self.expect is None or input_string != self.text:
            self.ctx.count("skipped:call not from the driver")
            return True
        self.ctx.count("monitor:unitsToUserUnits evaluated")
        if self.expect[0] is None:
            if result is not None:
                self._fail("unitsToUserUnits", result, None)
            return True
        num, unit = self.expect
        if self.inner and result is None:
            self.ctx.count("accepted: numeral and unit separated by white space rejected as a spelling")
            return True
        if unit == "%":
            ref = percent_ref if percent_ref else 1.0
            want = float(exact_value(num) * Fraction(ref) / 100)
        else:
            want = float(exact_value(num) * FACTOR[unit])
        if not isinstance(result, float) or not close(result, want):
            self._fail("unitsToUserUnits", result, want, percent_ref=percent_ref)
        return True


def install(ctx):
    from plotink import plot_utils
    mon = Monitor(ctx)
    contracts.install(plot_utils, "parseLengthWithUnits", post=mon.post_parse, ctx=ctx)
    contracts.install(plot_utils, "unitsToUserUnits", post=mon.post_to_uu, ctx=ctx)
    return mon


def gen_siblings(rng):
    """Other attributes a real <svg> root carries next to the one being read.  The readers are given a
    name and a reference; nothing else on the element may influence the answer."""
    if rng.random() < 0.35:
        return "width", {}
    sib = {}
    if rng.random() < 0.7:
        sib["viewBox"] = "%s %s %s %s" % (rng.choice((0, 0, -10, 5.5)), rng.choice((0, 0, 20)),
                                          round(rng.uniform(1, 2000), rng.choice((0, 1, 3))),
                                          round(rng.uniform(1, 2000), rng.choice((0, 1, 3))))
    if rng.random() < 0.5:
        sib["preserveAspectRatio"] = rng.choice(("none", "xMidYMid meet", "xMinYMax slice"))
    for other in ("width", "height", "x", "y"):
        if rng.random() < 0.5:
            sib[other] = "%s%s" % (round(rng.uniform(0, 900), 2), rng.choice(SUPPORTED))
    if rng.random() < 0.2:
        sib["{http://www.inkscape.org/namespaces/inkscape}version"] = "1.2"
    return rng.choice(("width", "width", "height", "x", "r")), sib


def one_case(ctx, mon, cls, text, num, unit, ref, default, attr="width", siblings=None):
    from plotink import plot_utils
    mon.text, mon.expect = text, (num, unit)
    mon.inner = inner = num is not None and text.strip() != num + unit
    try:
        parsed = plot_utils.parseLengthWithUnits(text)
        uu = plot_utils.unitsToUserUnits(text, ref) if ref is not None else plot_utils.unitsToUserUnits(text)
        uu_noref = plot_utils.unitsToUserUnits(text)
        attrs = dict(siblings or {})
        attrs[attr] = text
        stub = Stub(attrs)
        g_len = plot_utils.getLength(stub, attr, default)
        g_in = plot_utils.getLengthInches(stub, attr)
        others = dict(siblings or {})
        others.pop(attr, None)
        absent = plot_utils.getLength(Stub(others), attr, default)
        absent_in = plot_utils.getLengthInches(Stub(others), attr)
        if siblings:
            ctx.tag("document root carries sibling attributes (viewBox / other dimensions)")
            if "viewBox" in siblings:
                ctx.tag("document root carries a viewBox")
    except Exception as exc:
        ctx.violation("exception", {"fn": "driver", "text": text, "class": cls, "exception": repr(exc)})
        return
    ctx.count("monitor:cross-function agreement evaluated")

    def fail(kind, **kw):
        w = {"fn": kind, "text": text, "class": cls, "percent_ref": ref, "default": default}
        if siblings or attr != "width":
            w["attribute"] = attr
            w["siblings"] = siblings
        w.update(kw)
        ctx.violation(kind, w)

    if absent != float(default) or absent_in is not None:
        fail("absent attribute", getLength=absent, getLengthInches=absent_in)
    if num is None:
        # malformed / unsupported: None from all, never a number
        if text.strip() == "":
            # an empty attribute is "no attribute": getLength falls back to the default
            if text == "" and (g_len != float(default) or g_in is not None):
                fail("empty attribute", getLength=g_len, getLengthInches=g_in)
        elif g_len is not None or g_in is not None:
            fail("malformed text gave a number", getLength=g_len, getLengthInches=g_in)
        if uu is not None or uu_noref is not None or parsed != (None, None):
            fail("malformed text gave a number", unitsToUserUnits=uu, parse=parsed)
        return
    value = float(num)
    if inner:
        ctx.tag("spelling: white space between numeral and unit (value or None accepted)")
        if parsed == (None, None) or None in (uu, uu_noref, g_len) or (g_in is None and unit != "%"):
            ctx.count("accepted: numeral and unit separated by white space rejected as a spelling")
            return
    if unit == "%":
        want_len = float(Fraction(default) * exact_value(num) / 100)
        if not close(g_len, want_len):
            fail("getLength percent of reference", got=g_len, expected=want_len)
        back = plot_utils.userUnitToUnits(uu_noref, "%")
        if not close(back, value, 1e-9):
            fail("round trip", got=back, expected=value)
        return
    want = float(exact_value(num) * FACTOR[unit])
    if not close(g_len, want):
        fail("getLength != unitsToUserUnits", got=g_len, expected=want)
    if g_in is None or not close(g_in * 96.0, want, 1e-9):
        fail("getLengthInches*96 != pixels", got=g_in, expected=want / 96.0)
    for u in ({"": ("", "px"), "px": ("px", ""), "q": ("q", "Q"), "Q": ("Q", "q")}.get(unit, (unit,))):
        back = plot_utils.userUnitToUnits(uu_noref, u)
        ctx.count("monitor:round trip evaluated")
        if back is None or not close(back, value, 1e-9):
            fail("round trip", unit=u, got=back, expected=value)
    # the unit string the parser itself reports must be accepted by the back-converter
    back = plot_utils.userUnitToUnits(uu_noref, parsed[1])
    if back is None or not close(back, value, 1e-9):
        fail("round trip through reported unit", unit=parsed[1], got=back, expected=value)


def run(ctx):
    from plotink import plot_utils
    mon = install(ctx)
    rng = ctx.rng
    from .. import longrun
    _early = longrun.Early()
    if plot_utils.PX_PER_INCH != 96.0:
        ctx.violation("px per inch constant", {"fn": "PX_PER_INCH", "got": plot_utils.PX_PER_INCH})
    n = ctx.budget(60_000, 1_000_000)
    done = 0
    while done < n and ctx.alive():
        if rng.random() < 0.004:
            from .. import noise
            noise.burst(ctx, rng, exclude=('units',))
        if rng.random() < 0.005:
            from ..gen_stepper import failed_call
            failed_call(rng, rng.choice((plot_utils.parseLengthWithUnits, plot_utils.unitsToUserUnits,
                                         plot_utils.userUnitToUnits, plot_utils.getLength)), rng.choice((1, 2, 3)))
            ctx.tag("history: after a failed call (malformed arguments)")
        cls, text, num, unit = gen_case(rng)
        ref = rng.choice((None, None, 100, 297.0, 1056, 0.5))
        default = rng.choice((100, 793.7, 1, 3508, 0, 0.0, -50, 1e-3))
        ctx.case([cls], text, nontrivial=bool(unit) or num is None)
        ctx.sample({"text": text, "numeral": num, "unit": unit}, tag=cls, per_tag=1)
        attr, siblings = gen_siblings(rng)
        one_case(ctx, mon, cls, text, num, unit, ref, default, attr, siblings)
        _early.remember((cls, text, num, unit, ref, default))
        done += 1
        # history: the next strings share the numeral (other unit), the unit (numeral +- a little) or
        # everything but the reference with the previous one
        if num is not None and rng.random() < 0.2:
            for _ in range(rng.randint(1, 2)):
                k = rng.randrange(3)
                num2, unit2, ref2, default2 = num, unit, ref, default
                if k == 0:
                    unit2 = rng.choice(SUPPORTED)
                elif k == 1:
                    num2 = gen_numeral(rng)
                else:
                    ref2 = rng.choice((None, 100, 297.0, 1056, 0.5, 12))
                    default2 = rng.choice((100, 793.7, 1, 3508, 0, -50, 12))
                text2 = num2 + unit2
                ctx.case(["history: related arguments after a previous call", "history kind %d" % k],
                         (text2, ref2, default2, "after", text))
                one_case(ctx, mon, "history", text2, num2, unit2, ref2, default2)
    # long memory: 100000+ distinct length texts (raw), then the first cases of the run once more
    UNITS_ = ("mm", "in", "px", "pt", "cm", "pc", "Q", "%", "")
    for fname, mk in (("parseLengthWithUnits", lambda k: ("%d.%d%s" % (k, k % 10, UNITS_[k % 9]),)),
                      ("unitsToUserUnits", lambda k: ("%d.%d%s" % (k, k % 7, UNITS_[k % 9]), 100 + k % 3)),
                      ("userUnitToUnits", lambda k: (float(k) + 0.5, UNITS_[k % 8]))):
        longrun.churn_then_replay(ctx, plot_utils, fname, mk, _early if fname == "userUnitToUnits" else longrun.Early(0),
                                  lambda it: one_case(ctx, mon, *it), n_quick=60_000, n_thorough=140_000)
    ctx.need("history: asked again after many other distinct requests", 30)
    # None input
    if plot_utils.parseLengthWithUnits(None) != (None, None) or \
            plot_utils.userUnitToUnits(None, "mm") is not None:
        ctx.violation("None input", {"fn": "None"})
    for u in SUPPORTED:
        ctx.need("valid:%s" % (u or "no unit"), 500)
    for m in ("unsupported unit", "unit only", "empty", "double sign", "two numbers", "words",
              "unit then number", "exponent garbage"):
        ctx.need("malformed:" + m, 100)
    ctx.need("document root carries a viewBox", 10_000)
    ctx.need("spelling: white space between numeral and unit (value or None accepted)", 1_000)
    ctx.need("monitor:parseLengthWithUnits evaluated", 30_000)
    ctx.need("monitor:unitsToUserUnits evaluated", 30_000)
    ctx.need("monitor:round trip evaluated", 20_000)
    ctx.need("history: after calls to other library functions", 150)
    contracts.uninstall_all()


def replay(ctx, rec):
    mon = install(ctx)
    w = rec["witness"]
    text = w["text"]
    # recover the expectation by re-deriving numeral/unit from the generator's grammar
    num = unit = None
    stripped = text.strip()
    for u in sorted(SUPPORTED, key=len, reverse=True):
        if u and stripped.endswith(u):
            cand = stripped[:-len(u)].strip()
            try:
                float(cand)
                num, unit = cand, u
            except ValueError:
                pass
            break
    else:
        try:
            float(stripped)
            num, unit = stripped, ""
        except ValueError:
            pass
    ctx.case(["replay"], None)
    one_case(ctx, mon, w.get("class", "replay"), text, num, unit, w.get("percent_ref"), w.get("default", 100),
             w.get("attribute", "width"), w.get("siblings"))
    contracts.uninstall_all()
