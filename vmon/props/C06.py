"""C06 - motion/configuration helpers emit exactly the documented EBB command text.

Monitor: every helper of the legacy function layer (ebb_motion / ebb_serial) and of the EBB3
class layer is driven against a fake port whose board acknowledges everything; the bytes the
port receives are the observation.  The oracle is a reference table written from the EBB
command documentation (name + argument order), NOT from the helpers' format strings:
helper + arguments => list of request lines.  Checks per call: the written lines equal the
reference (every supplied argument present, zero included, documented order, nothing else),
each write is one line ending in exactly one CR; legacy and EBB3 counterparts emit identical
text; pause conservation; LM suppression; no port => no I/O and no exception."""
import json

from .. import ebb3mon, serialsim

LEVEL = "exploration"
THOROUGH_SHARDS = 16
RULE = ("for each of 29 legacy helpers and 29 EBB3 helpers: arguments drawn per position from {0, +-1, range edges, "
        "random}, optional arguments absent / None / 0 / non-zero, resolutions -3..9, pause lengths "
        "{-5..0, 1, 2, 749..752, 1499..1502, 2250, random <= 1e5}; 16 legacy/EBB3 counterpart pairs driven with the "
        "same arguments; every helper also with no port. One evaluation = one helper call whose wire text was "
        "compared with the reference; distinct by (helper, arguments); non-trivial when the reference expects at "
        "least one request line")
ASSUMPTIONS = ["reference table (vmon/props/C06.py:REFERENCE_*) transcribed from the EBB command documentation: "
               "SM,dur,axis1,axis2 (axis1 = Y, axis2 = X for xy moves); XM,dur,A,B; HM,rate[,p1,p2] (both or none); "
               "LM,r1,s1,a1,r2,s2,a2[,clear]; SP,1|0,delay[,pin] (1 = raise); SC,4 up pos / SC,5 down pos / SC,11 up "
               "rate / SC,12 down rate; EM,e1,e2; PO,B,pin,state; PD,B,pin,dir; SR,ms[,state]; SL,value[,index]; "
               "QL[,index]; ST,name; T3,1,0,0,0,0,0,0,3 for clearing the accumulators",
               "helpers that are firmware-gated may send the V version probe before their command (legacy layer)",
               "motors_enable on the EBB3 layer may precede the final EM,c1,c2 only by CU,50,0 (exactly one motor "
               "requested), QE and EM,c2,c2 (only motor 2 requested and the board reports another resolution), in "
               "any order that keeps QE before the pre-set; the four slot requests of var_write_int32 / "
               "var_read_int32 may come in any order"]

INT31 = 2 ** 31 - 1


def classify(rec):
    return None


def clamp(v):
    return min(max(int(v), 0), 5)


def line(name, *args):
    return ",".join([name] + [str(a) for a in args])


def pause_ok(n, lines):
    """Reference for timed pauses: zero-move SM commands, each 1..750 ms, summing to n."""
    if n <= 0:
        return lines == [], "no command for n <= 0"
    total = 0
    for ln in lines:
        parts = ln.split(",")
        if len(parts) != 4 or parts[0] != "SM" or parts[2] != "0" or parts[3] != "0":
            return False, "not a zero-move SM command: %r" % ln
        try:
            d = int(parts[1])
        except ValueError:
            return False, "duration not an integer: %r" % ln
        if not 1 <= d <= 750:
            return False, "chunk duration %d outside 1..750" % d
        total += d
    return total == n, "durations sum to %d, requested %d" % (total, n)


def lm_ref(r1, s1, a1, r2, s2, a2, clear):
    cannot1 = s1 == 0 or (r1 == 0 and a1 == 0)
    cannot2 = s2 == 0 or (r2 == 0 and a2 == 0)
    if cannot1 and cannot2:
        return []
    if clear is None:
        return [line("LM", r1, s1, a1, r2, s2, a2)]
    return [line("LM", r1, s1, a1, r2, s2, a2, clear)]


def hm_ref(rate, p1, p2):
    if p1 is not None and p2 is not None:
        return [line("HM", rate, p1, p2)]
    return [line("HM", rate)]


def sp_ref(value, delay, pin):
    return [line("SP", value, delay)] if pin is None else [line("SP", value, delay, pin)]


def sr_ref(ms, state):
    return [line("SR", ms)] if state is None else [line("SR", ms, state)]


# helper name -> (argument generator name, reference function(args) -> list of lines or ("pause", n))
def legacy_reference():
    return {
        "doABMove": ("abd", lambda a: [line("XM", a[2], a[0], a[1])]),
        "doTimedPause": ("pause", lambda a: ("pause", a[0])),
        "doLowLevelMove": ("lm", lambda a: lm_ref(*a)),
        "doXYMove": ("xyd", lambda a: [line("SM", a[2], a[1], a[0])]),
        "doAbsMove": ("hm", lambda a: hm_ref(*a)),
        "QueryPenUp": ("none", lambda a: ["QP"]),
        "QueryPRGButton": ("none", lambda a: ["QB"]),
        "sendDisableMotors": ("none", lambda a: ["EM,0,0"]),
        "sendEnableMotors": ("res1", lambda a: [line("EM", clamp(a[0]), clamp(a[0]))]),
        "query_enable_motors": ("none", lambda a: ["PI,E,0", "PI,C,1", "PI,E,2", "PI,E,1", "PI,A,6"]),
        "query_steps": ("none", lambda a: ["QS"]),
        "sendPenDown": ("pen", lambda a: sp_ref(0, *a)),
        "sendPenUp": ("pen", lambda a: sp_ref(1, *a)),
        "PBOutConfig": ("pinstate", lambda a: [line("PO", "B", a[0], a[1]), line("PD", "B", a[0], 0)]),
        "PBOutValue": ("pinstate", lambda a: [line("PO", "B", a[0], a[1])]),
        "TogglePen": ("none", lambda a: ["TP"]),
        "setPenDownPos": ("u16", lambda a: [line("SC", 5, a[0])]),
        "setPenDownRate": ("u16", lambda a: [line("SC", 12, a[0])]),
        "setPenUpPos": ("u16", lambda a: [line("SC", 4, a[0])]),
        "setPenUpRate": ("u16", lambda a: [line("SC", 11, a[0])]),
        "setEBBLV": ("u8", lambda a: [line("SL", a[0])]),
        "queryEBBLV": ("none", lambda a: ["QL"]),
        "queryVoltage": ("none", lambda a: ["QC"]),
        "servo_timeout": ("sr", lambda a: sr_ref(*a)),
        # ebb_serial helpers
        "serial.query_nickname": ("none", lambda a: ["QT"]),
        "serial.write_nickname": ("name", lambda a: [line("ST", a[0])]),
        "serial.reboot": ("none", lambda a: ["RB"]),
        "serial.bootload": ("none", lambda a: ["BL"]),
        "serial.queryVersion": ("none", lambda a: ["V"]),
    }


GATED_LEGACY = {"queryVoltage", "servo_timeout", "serial.query_nickname", "serial.write_nickname", "serial.reboot"}


def ebb3_reference():
    return {
        "timed_pause": ("pause", lambda a, b: ("pause", a[0])),
        "xy_move": ("xyd", lambda a, b: [line("SM", a[2], a[1], a[0])]),
        "abs_move": ("hm", lambda a, b: hm_ref(*a)),
        "motors_disable": ("none", lambda a, b: ["EM,0,0"]),
        "motors_enable": ("res2", lambda a, b: motors_ref(a, b)),
        "motors_query_enabled": ("none", lambda a, b: ["QE"]),
        "query_steps": ("none", lambda a, b: ["QS"]),
        "clear_steps": ("none", lambda a, b: ["CS"]),
        "clear_accumulators": ("none", lambda a, b: ["T3,1,0,0,0,0,0,0,3"]),
        "pen_lower": ("pen", lambda a, b: sp_ref(0, *a)),
        "pen_raise": ("pen", lambda a, b: sp_ref(1, *a)),
        "dio_b_config": ("pinstatedir", lambda a, b: [line("PO", "B", a[0], a[1]), line("PD", "B", a[0], a[2])]),
        "dio_b_set": ("pinstate", lambda a, b: [line("PO", "B", a[0], a[1])]),
        "dio_b_read": ("pin", lambda a, b: [line("PI", "B", a[0])]),
        "pen_pos_down": ("u16", lambda a, b: [line("SC", 5, a[0])]),
        "pen_pos_up": ("u16", lambda a, b: [line("SC", 4, a[0])]),
        "pen_rate_down": ("u16", lambda a, b: [line("SC", 12, a[0])]),
        "pen_rate_up": ("u16", lambda a, b: [line("SC", 11, a[0])]),
        "servo_timeout": ("sr", lambda a, b: sr_ref(*a)),
        "query_voltage": ("thr", lambda a, b: ["QC"]),
        "query_current": ("none", lambda a, b: ["QC"]),
        "var_write": ("valindex", lambda a, b: [line("SL", a[0], a[1])]),
        "var_read": ("index", lambda a, b: [line("QL", a[0])]),
        "var_write_int32": ("i32index", lambda a, b: [line("SL", byte, a[1] + k) for k, byte in
                                                      enumerate((a[0] % 2 ** 32).to_bytes(4, "big"))]),
        "var_read_int32": ("index29", lambda a, b: [line("QL", a[0] + k) for k in range(4)]),
        "write_nickname": ("name", lambda a, b: [line("ST", a[0].strip())]),
        "query_nickname": ("none", lambda a, b: ["QT"]),
        "reboot": ("none", lambda a, b: ["RB"]),
        "bootload": ("none", lambda a, b: ["BL"]),
        "query_statusbyte": ("none", lambda a, b: ["QG"]),
    }


def motors_ref(a, prior):
    """prior = (en1, en2, mode) of the board before the call."""
    c1, c2 = clamp(a[0]), clamp(a[1])
    out = []
    if c1 != c2 and c1 * c2 == 0:
        out.append("CU,50,0")
    if c1 == 0 and c2 != 0:
        out.append("QE")
        en1, en2, mode = prior
        reported = mode if (en1 or en2) else 0
        if reported != c2:
            out.append(line("EM", c2, c2))
    out.append(line("EM", c1, c2))
    return out


PAIRS = [  # legacy helper, EBB3 helper, argument generator, map legacy args -> EBB3 args
    ("doXYMove", "xy_move", "xyd", lambda a: a),
    ("doAbsMove", "abs_move", "hm", lambda a: a),
    ("doTimedPause", "timed_pause", "pause", lambda a: a),
    ("sendDisableMotors", "motors_disable", "none", lambda a: a),
    ("sendEnableMotors", "motors_enable", "res1", lambda a: [a[0], a[0]]),
    ("query_steps", "query_steps", "none", lambda a: a),
    ("sendPenDown", "pen_lower", "pen", lambda a: a),
    ("sendPenUp", "pen_raise", "pen", lambda a: a),
    ("PBOutConfig", "dio_b_config", "pinstate", lambda a: [a[0], a[1], 0]),
    ("PBOutValue", "dio_b_set", "pinstate", lambda a: a),
    ("setPenDownPos", "pen_pos_down", "u16", lambda a: a),
    ("setPenDownRate", "pen_rate_down", "u16", lambda a: a),
    ("setPenUpPos", "pen_pos_up", "u16", lambda a: a),
    ("setPenUpRate", "pen_rate_up", "u16", lambda a: a),
    ("servo_timeout", "servo_timeout", "sr", lambda a: a),
    ("queryVoltage", "query_voltage", "none", lambda a: a),
]


def pick(rng, lo, hi, extra=()):
    return rng.choice([0, 1, -1, lo, hi, lo + 1, hi - 1, rng.randint(lo, hi), rng.randint(lo, hi),
                       rng.randint(-100, 100)] + list(extra))


def opt(rng, gen):
    """(value, class): absent / None / 0 / non-zero."""
    c = rng.randrange(4)
    if c == 0:
        return "absent", None
    if c == 1:
        return "None", None
    if c == 2:
        return "zero", 0
    v = gen()
    return ("zero" if v == 0 else "non-zero"), v


def gen_args(rng, kind):
    """(args list as the reference sees them, positional list to pass, classes)."""
    if kind == "none":
        return [], [], []
    if kind == "abd" or kind == "xyd":
        a = [pick(rng, -INT31, INT31), pick(rng, -INT31, INT31), pick(rng, 1, 16777215)]
        return a, a, ["zero-valued argument"] if 0 in a else []
    if kind == "pause":
        n = rng.choice([-5, -1, 0, 1, 2, 749, 750, 751, 752, 1499, 1500, 1501, 1502, 2250, 2251,
                        rng.randint(1, 5000), rng.randint(1, 100000)])
        if rng.random() < 0.006:       # rare: hours-long pauses (thousands of chunks)
            n = rng.choice([3071999, 3072000, 3072001, 750 * 4097, 5000001, rng.randint(10 ** 6, 10 ** 7)])
        return [n], [n], ["pause:n<=0" if n <= 0 else "pause:n<=750" if n <= 750 else "pause:more than 4000 chunks"
                          if n > 3000000 else "pause:multiple of 750" if n % 750 == 0 else "pause:several chunks"]
    if kind == "lm":
        def axis():
            c = rng.randrange(6)
            if c == 0:
                return 0, rng.randint(-1000, 1000), 0              # rate 0 and accel 0
            if c == 1:
                return pick(rng, 0, INT31), 0, pick(rng, -INT31, INT31)   # zero steps
            if c == 2:
                return 0, rng.randint(1, 1000), pick(rng, 1, INT31)       # rate 0, accel != 0: can move
            return pick(rng, 0, INT31), pick(rng, -INT31, INT31), pick(rng, -INT31, INT31)
        r1, s1, a1 = axis()
        r2, s2, a2 = axis()
        ccls, clear = opt(rng, lambda: rng.randint(0, 3))
        args = [r1, s1, a1, r2, s2, a2, clear]
        pos = [r1, s1, a1, r2, s2, a2] + ([] if ccls == "absent" else [clear])
        cannot1 = s1 == 0 or (r1 == 0 and a1 == 0)
        cannot2 = s2 == 0 or (r2 == 0 and a2 == 0)
        return args, pos, ["lm:clear " + ccls, "lm:neither axis can move" if cannot1 and cannot2 else
                           "lm:one axis cannot move" if cannot1 or cannot2 else "lm:both axes move"]
    if kind == "hm":
        rate = pick(rng, 2, 25000)
        c = rng.randrange(6)
        if c == 0:
            return [rate, None, None], [rate], ["hm:positions absent"]
        if c == 1:
            return [rate, None, None], [rate, None, None], ["hm:positions None"]
        if c == 2:
            p = rng.randint(-5000, 5000)
            first = rng.random() < 0.5
            return ([rate, p, None] if first else [rate, None, p]), ([rate, p] if first else [rate, None, p]), \
                ["hm:one position only"]
        if c == 3:
            p1, p2 = rng.choice([(0, 0), (0, rng.randint(-5000, 5000) or 7), (rng.randint(-5000, 5000) or 7, 0)])
            return [rate, p1, p2], [rate, p1, p2], ["hm:zero position", "zero-valued argument"]
        p1, p2 = (rng.randint(-INT31, INT31) or 1), (rng.randint(-INT31, INT31) or 1)
        return [rate, p1, p2], [rate, p1, p2], ["hm:both positions non-zero"]
    if kind == "res1":
        r = rng.randint(-3, 9)
        return [r], [r], ["res:clamped" if r != clamp(r) else "res:in range"]
    if kind == "res2":
        r1, r2 = rng.randint(-3, 9), rng.randint(-3, 9)
        return [r1, r2], [r1, r2], ["res:clamped" if (r1 != clamp(r1) or r2 != clamp(r2)) else "res:in range"]
    if kind == "pen":
        delay = pick(rng, 0, 65535)
        pcls, pin = opt(rng, lambda: rng.randint(0, 7))
        return [delay, pin], [delay] + ([] if pcls == "absent" else [pin]), ["pen:pin " + pcls] + \
            (["zero-valued argument"] if pin == 0 or delay == 0 else [])
    if kind == "pinstate":
        a = [rng.randint(0, 7), rng.randint(0, 1)]
        return a, a, ["zero-valued argument"] if 0 in a else []
    if kind == "pinstatedir":
        a = [rng.randint(0, 7), rng.randint(0, 1), rng.randint(0, 1)]
        return a, a, ["zero-valued argument"] if 0 in a else []
    if kind == "pin":
        a = [rng.randint(0, 7)]
        return a, a, ["zero-valued argument"] if 0 in a else []
    if kind == "u16":
        a = [pick(rng, 1, 65535)]
        return a, a, ["zero-valued argument"] if 0 in a else []
    if kind == "u8":
        a = [rng.choice([0, 1, 127, 255, rng.randint(0, 255)])]
        return a, a, ["zero-valued argument"] if 0 in a else []
    if kind == "sr":
        ms = pick(rng, 0, 4294967295)
        scls, state = opt(rng, lambda: rng.randint(0, 1))
        return [ms, state], [ms] + ([] if scls == "absent" else [state]), ["sr:state " + scls] + \
            (["zero-valued argument"] if ms == 0 or state == 0 else [])
    if kind == "name":
        nm = rng.choice(["Ada", "AxiDraw 7", "x" * 16, "north-east", "a b c", "n3w"])
        return [nm], [nm], []
    if kind == "thr":
        c = rng.randrange(3)
        if c == 0:
            return [], [], []
        t = rng.choice([0, 250, 1023, rng.randint(0, 1023)])
        return [t], [t], []
    if kind == "valindex":
        a = [rng.choice([0, 255, rng.randint(0, 255)]), rng.choice([0, 31, rng.randint(0, 31)])]
        return a, a, ["zero-valued argument"] if 0 in a else []
    if kind == "index":
        a = [rng.choice([0, 31, rng.randint(0, 31)])]
        return a, a, ["zero-valued argument"] if 0 in a else []
    if kind == "i32index":
        a = [rng.choice([0, -1, 2 ** 31 - 1, -2 ** 31, rng.randint(-2 ** 31, 2 ** 31 - 1)]), rng.randint(0, 28)]
        return a, a, []
    if kind == "index29":
        a = [rng.randint(0, 28)]
        return a, a, []
    raise KeyError(kind)


def wire_lines(ctx, log, mark, problems):
    """Request lines written since `mark`; every write must be one line with exactly one CR."""
    out = []
    for ev in log.since(mark):
        if ev["kind"] != "write":
            continue
        ctx.count("monitor:writes parsed")
        text = ev["data"].decode("latin-1")
        if not text.endswith("\r") or text.count("\r") != 1 or "\n" in text:
            problems.append({"kind": "write is not one line ended by exactly one CR", "wrote": text})
        body = text.rstrip("\r")
        if body != body.strip() or " ," in body or ", " in body:
            problems.append({"kind": "stray whitespace in the command text", "wrote": text})
        out.append(body)
    return out


def compare(helper, ref, got, gated):
    if gated:
        got = [g for g in got if g.upper() != "V"]
    if helper == "motors_enable" and got and isinstance(ref, list) and got != ref:
        # the documented command is the final EM,c1,c2; the auxiliaries (CU,50,0 / QE / EM,c2,c2) may come
        # in any order as long as EM,c2,c2 - which depends on the QE answer - does not precede QE.  WHICH
        # auxiliaries are sent is fixed ("and nothing else"): a pre-set EM,c2,c2 that the board's reported
        # resolution does not call for re-energises motor 1 for nothing (seed C06-3), and is reported.
        aux_ok = sorted(got[:-1]) == sorted(ref[:-1]) and got[-1] == ref[-1]
        if aux_ok and "QE" in got:
            pre = [g for g in got[:-1] if g.startswith("EM,")]
            aux_ok = all(got.index(g) > got.index("QE") for g in pre)
        if aux_ok:
            return None
    if helper == "write_nickname" and isinstance(ref, list) and got != ref and [g for g in got if g != "QT"] == ref:
        # the nickname helpers are C16's (they are not among this property's anchors): what is decided here is
        # that the documented ST text goes out, once; reading the name back afterwards (QT changes nothing on
        # the board) is not reported
        return None
    if helper in ("var_write_int32", "var_read_int32") and isinstance(ref, list) and sorted(got) == sorted(ref):
        # four single-slot requests; the order in which the four slots are visited is not documented
        return None
    if isinstance(ref, tuple) and ref[0] == "pause":
        ok, why = pause_ok(ref[1], got)
        return None if ok else {"kind": "timed pause not conserved", "why": why, "wrote": got[:8], "n": ref[1]}
    if got != ref and isinstance(ref, list) and len(got) == len(ref) and \
            all(g.split(",")[0].upper() == r.split(",")[0].upper() and g.split(",")[1:] == r.split(",")[1:]
                for g, r in zip(got, ref)):
        return None     # EBB command names are not case sensitive ("v" is the V command); the arguments are exact
    if got != ref:
        kind = "command text differs from the documented form"
        if len(got) == len(ref) and all(g.split(",")[0] == r.split(",")[0] for g, r in zip(got, ref)):
            for g, r in zip(got, ref):
                if g != r and len(g.split(",")) < len(r.split(",")):
                    kind = "supplied argument missing from the command"
        elif not got and ref:
            kind = "command suppressed although it should be sent"
        elif got and not ref:
            kind = "command sent although it should be suppressed"
        return {"kind": kind, "wrote": got[:8], "documented": ref[:8]}
    return None


class Legacy:
    """Legacy layer against a Legacy2xBoard that acknowledges everything."""

    def __init__(self, version="2.8.1"):
        import logging
        lg = logging.getLogger("plotink.ebb_serial")
        if not lg.handlers:                 # keep the library's error log out of the check's output
            lg.addHandler(logging.NullHandler())
            lg.propagate = False
        self.log = serialsim.EventLog()
        self.board = serialsim.Legacy2xBoard(version=version)
        self.port = serialsim.FakePort(self.board, self.log)

    @staticmethod
    def func(name):
        from plotink import ebb_motion, ebb_serial
        if name.startswith("serial."):
            return getattr(ebb_serial, name[7:])
        return getattr(ebb_motion, name)

    def call(self, name, pos, port=True, by_keyword=False):
        mark = self.log.mark()
        raised = None
        try:
            if by_keyword and pos:
                a, k = keywordize(self.func(name), pos, skip_first=True)
                result = self.func(name)(self.port if port else None, *a, **k)
            else:
                result = self.func(name)(self.port if port else None, *pos)
        except Exception as exc:        # observed
            result, raised = None, exc
        return mark, result, raised


def run_legacy(ctx, rng, name, kind, ref_fn, fixed=None):
    args, pos, classes = fixed or gen_args(rng, kind)
    leg = Legacy()
    kw = fixed is None and bool(pos) and rng.random() < 0.25
    if kw:
        classes = classes + ["call style: arguments by keyword"]
    mark, _res, raised = leg.call(name, pos, by_keyword=kw)
    problems = []
    got = wire_lines(ctx, leg.log, mark, problems)
    ref = ref_fn(args)
    witness = {"layer": "legacy", "helper": name, "args": pos, "ref_args": args}
    ctx.case(["legacy", "legacy:" + name] + classes, ("legacy", name, json.dumps(pos)),
             nontrivial=bool(ref) if not isinstance(ref, tuple) else ref[1] > 0)
    if raised is not None:
        ctx.violation("helper raised", dict(witness, exception=repr(raised)))
        return
    diff = compare(name, ref, got, name in GATED_LEGACY)
    for p in problems + ([diff] if diff else []):
        ctx.violation(p["kind"], dict(witness, **p))
    return got


def slow_link(ctx, rng, leg_ref, e3_ref):
    """The same requests over a link whose every reply really takes 12-30 ms (a USB hub, a busy
    host): what is transmitted must not depend on how long the port takes to answer."""
    latency = rng.choice((0.012, 0.02, 0.03))
    n = rng.choice((751, 1500, 1501, 2000, 2251, 750, 1))
    ref = ("pause", n)
    witness = {"helper": "doTimedPause / timed_pause", "args": [n], "link_round_trip_s": latency}
    leg = Legacy()
    leg.port.latency = latency
    mark, _res, raised = leg.call("doTimedPause", [n])
    problems = []
    got_l = wire_lines(ctx, leg.log, mark, problems)
    world = ebb3mon.World(board_kwargs={"version": "3.0.2"})
    world.attach()
    world.port.latency = latency
    mark = world.log.mark()
    top, _ = ebb3mon.call_step(world, {"m": "timed_pause", "a": [n]})
    got_3 = wire_lines(ctx, world.log, mark, problems)
    ctx.case(["slow link (every reply takes 12-30 ms of real time)"], ("slow", n, latency))
    if raised is not None or top is None or "raised" in top:
        ctx.violation("helper raised", dict(witness, exception=repr(raised or (top and top.get("raised")))))
        return
    for layer, got in (("legacy", got_l), ("ebb3", got_3)):
        diff = compare("timed pause", ref, got, False)
        for p in problems + ([diff] if diff else []):
            ctx.violation(p["kind"], dict(witness, layer=layer, **p))
        problems = []
    if got_l != got_3:
        ctx.violation("the two layers emit different text for the same request",
                      dict(witness, legacy=got_l[:8], ebb3=got_3[:8]))
    # one ordinary helper of each layer as well
    name = rng.choice(["doXYMove", "sendPenUp", "sendEnableMotors"])
    kind, ref_fn = leg_ref[name]
    args, pos, _classes = gen_args(rng, kind)
    leg = Legacy()
    leg.port.latency = latency
    mark, _res, raised = leg.call(name, pos)
    problems = []
    got = wire_lines(ctx, leg.log, mark, problems)
    diff = compare(name, ref_fn(args), got, name in GATED_LEGACY)
    for p in problems + ([diff] if diff else []):
        ctx.violation(p["kind"], dict({"layer": "legacy", "helper": name, "args": pos, "link_round_trip_s": latency}, **p))


def marathon(ctx, rng, e3_ref):
    """ONE EBB3 object on which every pen / move helper is used tens of thousands of times (one plot
    session of a stipple drawing): the text on the wire is compared with the reference at every call."""
    world = ebb3mon.World(board_kwargs={"version": "3.0.2"})
    world.attach()
    n = ctx.budget(66_000, 140_000)
    names = ["pen_lower", "pen_raise", "xy_move", "dio_b_set"]
    prepared = []
    for name in names:
        kind, ref_fn = e3_ref[name]
        prepared.append((name, ref_fn, [gen_args(rng, kind)[:2] for _ in range(12)]))
    prior = (world.board.en1, world.board.en2, world.board.mode)
    for i in range(n):
        for name, ref_fn, pool in prepared:
            args, pos = pool[i % len(pool)]
            mark = world.log.mark()
            top, _ = ebb3mon.call_step(world, {"m": name, "a": pos})
            problems = []
            got = wire_lines(ctx, world.log, mark, problems)
            diff = compare(name, ref_fn(args, prior), got, False)
            raised = top is None or "raised" in top
            if raised or diff or problems:
                ctx.violation((diff or {}).get("kind", "helper raised" if raised else problems[0]["kind"]), {
                    "layer": "ebb3", "helper": name, "args": pos, "call_number_on_this_object": i + 1,
                    "wrote": got, "documented": ref_fn(args, prior),
                    "exception": repr(top.get("raised")) if top and "raised" in top else None})
                return
        if i % 4000 == 3999:
            world.log.events.clear()
            world.mon.done = []
    ctx.case(["one object, every pen / move helper tens of thousands of times"], ("marathon", n))


def keywordize(fn, pos, skip_first=False):
    """(positional part, keyword part) for calling fn with its trailing arguments by keyword; the
    parameter names come from the function as it is now (renaming one is not a violation)."""
    import inspect
    try:
        names = [p.name for p in inspect.signature(fn).parameters.values()
                 if p.kind in (p.POSITIONAL_OR_KEYWORD, p.KEYWORD_ONLY)]
    except (TypeError, ValueError):
        return list(pos), {}
    if skip_first:
        names = names[1:]
    if len(names) < len(pos):
        return list(pos), {}
    return [], dict(zip(names, pos))


def run_ebb3(ctx, rng, name, kind, ref_fn, fixed=None, board=None):
    args, pos, classes = fixed or gen_args(rng, kind)
    board = board or {"version": "3.0.2", "en1": rng.random() < 0.5, "en2": rng.random() < 0.5, "mode": rng.randint(1, 5)}
    world = ebb3mon.World(board_kwargs=board)
    world.attach()
    prior = (world.board.en1, world.board.en2, world.board.mode)
    mark = world.log.mark()
    step = {"m": name, "a": pos}
    if pos and fixed is None and rng.random() < 0.25:
        a, k = keywordize(getattr(type(world.obj).__mro__[1], name), pos, skip_first=True)
        step = {"m": name, "a": a, "k": k}
        classes = classes + ["call style: arguments by keyword"]
    top, _ = ebb3mon.call_step(world, step)
    problems = []
    got = wire_lines(ctx, world.log, mark, problems)
    ref = ref_fn(args, prior)
    witness = {"layer": "ebb3", "helper": name, "args": pos, "ref_args": args, "board": board, "keywords": step.get("k")}
    ctx.case(["ebb3", "ebb3:" + name] + classes, ("ebb3", name, json.dumps(pos), prior if name == "motors_enable" else 0),
             nontrivial=bool(ref) if not isinstance(ref, tuple) else ref[1] > 0)
    if top is None or "raised" in top:
        ctx.violation("helper raised", dict(witness, exception=repr(top and top.get("raised"))))
        return
    diff = compare(name, ref, got, False)
    for p in problems + ([diff] if diff else []):
        ctx.violation(p["kind"], dict(witness, **p))
    if name == "motors_enable":
        for g in got:
            parts = g.split(",")
            if parts[0] == "EM" and not all(p.isdigit() and 0 <= int(p) <= 5 for p in parts[1:]):
                ctx.violation("motor resolution outside 0..5 on the wire", dict(witness, wrote=got))
    return got


def run_pair(ctx, rng, leg_name, e3_name, kind, amap, fixed=None):
    args, pos, classes = gen_args(rng, kind)
    if fixed is not None:
        pos, classes = fixed, ["replay"]
    leg = Legacy()
    mark, _r, raised = leg.call(leg_name, pos)
    got_l = [g for g in wire_lines(ctx, leg.log, mark, []) if g.upper() != "V"]
    e3_pos = amap(pos)
    world = ebb3mon.World(board_kwargs={"version": "3.0.2", "en1": True, "en2": True, "mode": 1})
    world.attach()
    mark2 = world.log.mark()
    top, _ = ebb3mon.call_step(world, {"m": e3_name, "a": e3_pos})
    got_e = wire_lines(ctx, world.log, mark2, [])
    ctx.case(["pair", "pair:%s/%s" % (leg_name, e3_name)] + classes, ("pair", leg_name, json.dumps(pos)))
    ctx.count("monitor:layer pairs compared")
    if raised is not None or top is None or "raised" in top:
        return      # reported by the per-layer runs
    if got_l != got_e:
        ctx.violation("the two layers emit different text for the same request",
                      {"layer": "pair", "helper": leg_name, "ebb3_helper": e3_name, "args": pos, "ebb3_args": e3_pos,
                       "legacy_wrote": got_l[:8], "ebb3_wrote": got_e[:8]})


def run_sessions(ctx, rng, leg_ref, e3_ref):
    """History: many helper calls on ONE connection object / ONE port, with immediate repeats of the
    same call - every call must transmit its documented text, whatever was sent before."""
    # --- EBB3 layer, one object
    world = ebb3mon.World(board_kwargs={"version": "3.0.2", "en1": rng.random() < 0.5, "en2": rng.random() < 0.5,
                                        "mode": rng.randint(1, 5)})
    world.attach()
    names = [n for n in e3_ref if n not in ("reboot", "bootload")]
    prev = None
    for i in range(rng.randint(8, 25)):
        if prev is not None and rng.random() < 0.4:
            name, args, pos = prev                      # the very same request again
            cls = "session: same call repeated"
        else:
            name = rng.choice(names)
            args, pos, _c = gen_args(rng, e3_ref[name][0])
            cls = "session: another call on the same object"
        prior = (world.board.en1, world.board.en2, world.board.mode)
        mark = world.log.mark()
        top, _ = ebb3mon.call_step(world, {"m": name, "a": pos})
        problems = []
        got = wire_lines(ctx, world.log, mark, problems)
        ref = e3_ref[name][1](args, prior)
        ctx.case(["ebb3", "session", cls], ("s3", name, json.dumps(pos), i, prior if name == "motors_enable" else 0))
        witness = {"layer": "ebb3", "helper": name, "args": pos, "ref_args": args, "session_call": i,
                   "repeated": cls.endswith("repeated")}
        if top is None or "raised" in top:
            ctx.violation("helper raised", dict(witness, exception=repr(top and top.get("raised"))))
            break
        if world.obj.err is not None:
            break                                       # a pause of hours etc. cannot fail here; stop on any error
        diff = compare(name, ref, got, False)
        for pr in problems + ([diff] if diff else []):
            ctx.violation(pr["kind"], dict(witness, **pr))
        prev = (name, args, pos)
    # --- legacy layer, one port
    leg = Legacy()
    names = [n for n in leg_ref if n not in ("serial.reboot", "serial.bootload")]
    prev = None
    for i in range(rng.randint(8, 25)):
        if prev is not None and rng.random() < 0.4:
            name, args, pos = prev
            cls = "session: same call repeated"
        else:
            name = rng.choice(names)
            args, pos, _c = gen_args(rng, leg_ref[name][0])
            cls = "session: another call on the same object"
        mark, _res, raised = leg.call(name, pos)
        problems = []
        got = wire_lines(ctx, leg.log, mark, problems)
        ref = leg_ref[name][1](args)
        ctx.case(["legacy", "session", cls], ("sl", name, json.dumps(pos), i))
        witness = {"layer": "legacy", "helper": name, "args": pos, "ref_args": args, "session_call": i,
                   "repeated": cls.endswith("repeated")}
        if raised is not None:
            ctx.violation("helper raised", dict(witness, exception=repr(raised)))
            break
        diff = compare(name, ref, got, name in GATED_LEGACY)
        for pr in problems + ([diff] if diff else []):
            ctx.violation(pr["kind"], dict(witness, **pr))
        prev = (name, args, pos)


def run_noport(ctx, rng, leg_ref, e3_ref):
    for name, (kind, _ref) in leg_ref.items():
        _a, pos, _c = gen_args(rng, kind)
        leg = Legacy()
        _m, _r, raised = leg.call(name, pos, port=False)
        ctx.case(["no port", "no port:legacy"], ("noport", name, json.dumps(pos)), nontrivial=False)
        if raised is not None:
            ctx.violation("helper raised with no port", {"layer": "legacy", "helper": name, "args": pos, "noport": True,
                                                        "exception": repr(raised)})
        if leg.log.events:
            ctx.violation("I/O with no port", {"layer": "legacy", "helper": name, "args": pos, "noport": True})
    for name, (kind, _ref) in e3_ref.items():
        _a, pos, _c = gen_args(rng, kind)
        world = ebb3mon.World(board_kwargs={"version": "3.0.2"})
        top, _ = ebb3mon.call_step(world, {"m": name, "a": pos})
        ctx.case(["no port", "no port:ebb3"], ("noport3", name, json.dumps(pos)), nontrivial=False)
        if top is None or "raised" in top:
            ctx.violation("helper raised with no port", {"layer": "ebb3", "helper": name, "args": pos, "noport": True,
                                                        "exception": repr(top and top.get("raised"))})
        if any(e["kind"] in ("write", "read") for e in world.log.events):
            ctx.violation("I/O with no port", {"layer": "ebb3", "helper": name, "args": pos, "noport": True})


def run(ctx):
    rng = ctx.rng
    leg_ref, e3_ref = legacy_reference(), ebb3_reference()
    from plotink import ebb_motion
    import inspect
    public_legacy = [n for n, f in inspect.getmembers(ebb_motion, inspect.isfunction)
                     if f.__module__ == ebb_motion.__name__ and inspect.signature(f).parameters
                     and list(inspect.signature(f).parameters)[0] == "port_name"]
    ctx.extra["legacy_helpers_without_reference"] = sorted(set(public_legacy) - set(leg_ref))
    ctx.extra["ebb3_request_methods_without_reference"] = sorted(set(ebb3mon.REQUESTS) - set(e3_ref) - {"command", "query"})
    per = ctx.budget(1500, 12000)
    for i in range(per):
        if not ctx.alive():
            break
        if rng.random() < 0.08:
            from .. import noise
            noise.burst(ctx, rng, exclude=('versions', 'discovery'))
        for name, (kind, ref) in leg_ref.items():
            got = run_legacy(ctx, rng, name, kind, ref)
            if i == 0 and got is not None:
                ctx.sample({"layer": "legacy", "helper": name, "wrote": got[:3]}, tag="legacy:" + name, per_tag=1)
        for name, (kind, ref) in e3_ref.items():
            got = run_ebb3(ctx, rng, name, kind, ref)
            if i == 0 and got is not None and len(ctx.samples) < 24:
                ctx.sample({"layer": "ebb3", "helper": name, "wrote": got[:3]}, tag="ebb3:" + name, per_tag=1)
        for pair in PAIRS:
            run_pair(ctx, rng, *pair)
        if i % 50 == 0:
            run_noport(ctx, rng, leg_ref, e3_ref)
        run_sessions(ctx, rng, leg_ref, e3_ref)
    marathon(ctx, rng, e3_ref)
    ctx.need("one object, every pen / move helper tens of thousands of times", 1)
    for _ in range(ctx.budget(25, 60)):
        slow_link(ctx, rng, leg_ref, e3_ref)
    ctx.need("slow link (every reply takes 12-30 ms of real time)", 20)
    for name in leg_ref:
        ctx.need("legacy:" + name, 100)
    for name in e3_ref:
        ctx.need("ebb3:" + name, 100)
    for cls in ("zero-valued argument", "pause:n<=0", "pause:n<=750", "pause:multiple of 750", "pause:several chunks",
                "lm:clear absent", "lm:clear None", "lm:clear zero", "lm:clear non-zero", "lm:neither axis can move",
                "lm:one axis cannot move", "lm:both axes move", "hm:positions absent", "hm:positions None",
                "hm:one position only", "hm:zero position", "hm:both positions non-zero", "res:clamped", "res:in range",
                "pen:pin absent", "pen:pin None", "pen:pin zero", "pen:pin non-zero", "sr:state absent", "sr:state zero",
                "sr:state non-zero", "no port:legacy", "no port:ebb3"):
        ctx.need(cls, 30)
    ctx.need("pause:more than 4000 chunks", 4)
    ctx.need("history: after calls to other library functions", 60)
    ctx.need("session: same call repeated", 3000)
    ctx.need("call style: arguments by keyword", 3000)
    ctx.need("session: another call on the same object", 5000)
    ctx.need("monitor:writes parsed", 20000)
    ctx.need("monitor:layer pairs compared", 3000)


def replay(ctx, rec):
    w = rec["witness"]
    leg_ref, e3_ref = legacy_reference(), ebb3_reference()
    if w.get("noport"):
        run_noport(ctx, ctx.rng, leg_ref, e3_ref)
    elif w["layer"] == "legacy":
        kind, ref = leg_ref[w["helper"]]
        got = run_legacy(ctx, ctx.rng, w["helper"], kind, ref, fixed=(w["ref_args"], w["args"], ["replay"]))
        print("replay: legacy %s%r wrote %r" % (w["helper"], tuple(w["args"]), got))
    elif w.get("session_call") is not None:
        for _ in range(200):
            run_sessions(ctx, ctx.rng, leg_ref, e3_ref)
    elif w["layer"] == "ebb3":
        kind, ref = e3_ref[w["helper"]]
        got = run_ebb3(ctx, ctx.rng, w["helper"], kind, ref, fixed=(w["ref_args"], w["args"], ["replay"]),
                       board=w.get("board"))
        print("replay: ebb3 %s%r wrote %r" % (w["helper"], tuple(w["args"]), got))
    else:
        for pair in PAIRS:
            if pair[0] == w["helper"]:
                run_pair(ctx, ctx.rng, *pair, fixed=w["args"])
