"""C03 - step-limited (LM) move: duration is the FIRST tick that exhausts the step budget.

Monitor: icontract post-condition on the real ebb_calc.calculate_lm: equality with the
exact oracle (minimal tick by bisection on the monotone step count of the C01
recurrence), accumulator range, and the 'consequently' clause checked through the real
move_dist_lt."""
from .. import contracts, gen_stepper as G
from ..oracles import stepper as S

LEVEL = "exploration"
THOROUGH_SHARDS = 16
RULE = ("seeded stratified generator over (steps, rate, accel, accumulator|clear): a timed move in "
        "the valid domain is drawn first and the step budget is derived from the number of steps it "
        "takes (exact / +1 / -1 / random / huge), so reversing moves, exact step-boundary hits "
        "(constructed by solving the start accumulator), reversal between tick 1 and 2, legacy "
        "negative budgets and the three cannot-move rules are all frequent; requests whose budget "
        "is not completed with every |rate_k| <= 2^31-1 are skipped and counted; distinct by "
        "argument tuple; non-trivial when the request can move")
ASSUMPTIONS = [
    "reference model = minimal tick by exponential search + bisection over the exact integer "
    "recurrence (step count is monotone in the tick), self-checked against literal ticking with a "
    "per-tick step counter whenever the duration is <= 3000",
]
M = S.M


def classify(rec):
    return None


class Monitor:
    def __init__(self, ctx):
        self.ctx = ctx
        self.res = None
        self.in_lt = False
        self.prev_call = None
        self.this_call = None
        self.imported_under = None

    def post(self, steps, rate, accel, accum, result):
        ctx = self.ctx
        self.res = None
        if not all(type(v) is int for v in (steps, rate, accel)) or \
                not (accum == "clear" or type(accum) is int):
            ctx.count("skipped:non-integer input")
            return True
        if accum != "clear" and not 0 <= accum < M:
            ctx.count("skipped:outside domain (accumulator)")
            return True
        if abs(rate) > S.RMAX or abs(accel) > S.RMAX or abs(steps) > 2 ** 31:
            ctx.count("skipped:outside domain (argument range)")
            return True
        res = S.lm_expected(steps, rate, accel, accum)
        if res.invalid:
            ctx.count("skipped:outside domain (%s)" % res.reason)
            return True
        ctx.count("monitor:calculate_lm evaluated")
        self.res = res
        want = (res.duration, res.position, res.accumulator)
        self.prev_call, self.this_call = self.this_call, [steps, rate, accel, accum]
        witness = {"fn": "calculate_lm", "args": [steps, rate, accel, accum],
                   "got": result, "expected": list(want), "previous_call": self.prev_call,
                   "imported_under": self.imported_under, "ambient": getattr(self, "ambient", None)}
        ok_shape = isinstance(result, tuple) and len(result) == 3 and \
            all(type(v) is int for v in result)
        if not ok_shape or tuple(result) != want:
            kind = "calculate_lm != first tick exhausting the budget"
            if ok_shape and not 0 <= result[2] < M:
                kind += " (accumulator outside [0,2^31))"
            ctx.violation(kind, witness)
            return True
        if res.duration > 0:
            # 'consequently': feed the reported duration to the real timed-move predictor
            from plotink import ebb_calc
            ctx.count("monitor:cross-check through move_dist_lt")
            back = ebb_calc.move_dist_lt(res.rate, res.accel, result[0], accum)
            if tuple(back) != (result[1], result[2]):
                witness["move_dist_lt"] = back
                ctx.violation("timed-move predictor does not reproduce the LM result", witness)
        return True


def install(ctx):
    from plotink import ebb_calc
    mon = Monitor(ctx)
    contracts.install(ebb_calc, "calculate_lm", post=mon.post, ctx=ctx)
    return mon


def one_case(ctx, mon, steps, rate, accel, accum, via="calculate_lm"):
    from plotink import ebb_calc, ebb_motion
    mon.res = None
    # the caller's arbitrary-precision settings at the time of the call are not the library's business:
    # half of the cases are made with another ambient mpmath / decimal setting in force
    amb = G.Ambient(*ctx.rng.choice(G.AMBIENT)) if ctx.rng.random() < 0.5 else G.Ambient("dps", 15)
    mon.ambient = amb.describe()
    ctx.tag("ambient:%s" % amb.kind)

    def call():
        if via == "moveTimeLM":
            got = ebb_motion.moveTimeLM(rate, steps, accel)
            if mon.res is not None:
                ctx.count("monitor:alias moveTimeLM")
                if got != mon.res.duration:
                    ctx.violation("alias moveTimeLM", {"fn": "moveTimeLM", "args": [steps, rate, accel, "clear"],
                                                       "ambient": mon.ambient,
                                                       "got": got, "expected": mon.res.duration})
        elif via == "default-accum":
            ebb_calc.calculate_lm(steps, rate, accel)
        elif (steps + rate) % 9 == 0:
            G.by_keyword(ebb_calc.calculate_lm, (steps, rate, accel, accum))
            ctx.tag("arguments passed by keyword")
        else:
            ebb_calc.calculate_lm(steps, rate, accel, accum)

    try:
        with amb:
            call()
    except Exception as exc:
        ctx.violation("exception", {"fn": via, "args": [steps, rate, accel, accum], "ambient": mon.ambient,
                                    "exception": repr(exc)})
    return mon.res


def related_calls(ctx, mon, rng, steps, rate, accel, accum):
    """History: consecutive requests that share all but one argument (second axis of the same
    segment, budget +-1, mirrored move, -1 <-> -2)."""
    for _ in range(rng.randint(1, 3)):
        c = rng.randrange(6)
        s2, r2, a2, acc2 = steps, rate, accel, accum
        if c == 0:
            s2 = rng.choice((steps + 1, max(0, steps - 1), -steps, steps * 2))
        elif c == 1:
            r2 = rng.choice((rate + 1, rate - 1, -rate, rate // 2))
        elif c == 2:
            a2 = rng.choice((accel + 1, accel - 1, -accel, 0))
        elif c == 3:
            acc2 = rng.choice(("clear", 0, M - 1, rng.randrange(M)))
        elif c == 4:
            r2, a2 = [(-2 if v == -1 else -1 if v == -2 else v) for v in (rate, accel)]
            if (r2, a2) == (rate, accel):
                a2 = rng.choice((-1, -2))
        else:
            s2, r2, a2 = -steps, -rate, -accel
        res = one_case(ctx, mon, s2, r2, a2, acc2)
        if res is not None:
            ctx.case(["history: related arguments after a previous call"], ("rel", s2, r2, a2, acc2, steps, rate, accel),
                     nontrivial=res.duration > 0)
        steps, rate, accel, accum = s2, r2, a2, acc2


def import_time_phase(ctx, n_per_setting):
    rng = ctx.rng
    for setting in G.IMPORT_SETTINGS:
        contracts.uninstall_all()
        G.reload_ebb_calc(setting)
        mon = install(ctx)
        mon.imported_under = list(setting)
        done = 0
        while done < n_per_setting and ctx.alive():
            _cls, steps, rate, accel, accum = G.gen_lm_case(rng)
            res = one_case(ctx, mon, steps, rate, accel, accum)
            if res is None:
                continue
            ctx.case(["module imported under low precision", "imported under %s=%d" % setting],
                     (steps, rate, accel, accum, "import", setting), nontrivial=res.duration > 0)
            done += 1
    contracts.uninstall_all()
    G.reload_ebb_calc(None)


NEEDED = ["accel=0", "|accel|<=3", "r1=0", "no reversal, forward", "no reversal, backward",
          "reversal between tick 1 and 2", "budget met before the reversal",
          "reversal before the first step", "steps in both directions",
          "exact boundary hit at the duration tick", "exact boundary hit at the duration tick after a reversal",
          "one unit short of the boundary at the tick before the duration",
          "one unit short of the boundary at the tick before the duration after a reversal",
          "duration=1", "duration>=2^24", "steps>=2^24", "accum=clear", "accum=given",
          "legacy negative steps", "cannot move: steps=0", "cannot move: rate=accel=0",
          "cannot move: neg steps & neg rate", "via:moveTimeLM"]


def small_grid(ctx, mon):
    """Every request with a budget of 1..3 steps, rate and acceleration in -6..6 and an accumulator at or next
    to either end of its range (0, 1, 2^31-2, 2^31-1, clear): tiny moves are where reversals on tick 1 or 2,
    double roots (the accumulator parabola just touching a step boundary) and exact boundary hits all
    coincide - enumerated, not sampled.  Requests outside the statement's domain are skipped by the monitor."""
    n = 0
    for steps in (1, 2, 3, -1):
        for rate in range(-6, 7):
            for accel in range(-6, 7):
                for accum in (0, 1, 2 ** 31 - 2, 2 ** 31 - 1, "clear"):
                    ctx.case(["grid: exhaustive tiny moves"], ("grid", steps, rate, accel, accum))
                    one_case(ctx, mon, steps, rate, accel, accum)
                    n += 1
    ctx.extra["exhaustive_subspace"] = ("steps in {1,2,3,-1} x rate, accel in -6..6 x accumulator in {0, 1, 2^31-2, 2^31-1, "
                                        "clear}: %d requests, all enumerated" % n)


def run(ctx):
    from .. import wtests
    wtests.run(ctx)
    mon = install(ctx)
    rng = ctx.rng
    small_grid(ctx, mon)
    ctx.need("grid: exhaustive tiny moves", 3000)
    from .. import longrun
    _early = longrun.Early()
    n = ctx.budget(60_000, 600_000)
    done = 0
    while done < n and ctx.alive():
        gen_classes, steps, rate, accel, accum = G.gen_lm_case(rng)
        via = "calculate_lm"
        c = rng.random()
        if c < 0.08:
            via, accum = "moveTimeLM", "clear"
        elif c < 0.12 and accum == "clear":
            via = "default-accum"
        extra_cls = []
        if accum == "clear" and via == "calculate_lm" and rng.random() < 0.3:
            accum = G.fresh_clear(rng)
            extra_cls.append("'clear' passed as a string built at run time")
        if rng.random() < 0.004:
            from .. import noise
            noise.burst(ctx, rng, exclude=('stepper', 'legacy-stepper'))
        if rng.random() < 0.01:
            from plotink import ebb_calc as _ec
            G.failed_call(rng, _ec.calculate_lm, 4)
            extra_cls.append("after a failed call (malformed arguments, exception caught by the caller)")
        res = one_case(ctx, mon, steps, rate, accel, accum, via)
        _early.remember((steps, rate, accel, accum, via))
        if res is None:
            continue
        classes = list(gen_classes) + extra_cls
        moves = res.duration > 0
        if moves:
            classes += G.lm_classes(res, accum)
        classes.append("via:" + via)
        ctx.case(classes, (steps, rate, accel, accum, via), nontrivial=moves)
        ctx.sample({"via": via, "steps": steps, "rate": rate, "accel": accel, "accum": accum,
                    "oracle": [res.duration, res.position, res.accumulator]},
                   tag=classes[0])
        if moves and res.duration <= 3000 and done % 3 == 0:
            ctx.count("oracle self-check (literal ticking)")
            lit = S.tick_lm(steps, rate, accel, accum, res.duration + 2)
            if lit != (res.duration, res.position, res.accumulator):
                ctx.oracle_fault("bisection oracle != literal ticking",
                                 {"args": [steps, rate, accel, accum], "literal": lit,
                                  "oracle": [res.duration, res.position, res.accumulator]})
        done += 1
        if rng.random() < 0.2:
            related_calls(ctx, mon, rng, steps, rate, accel, accum)
    from plotink import ebb_calc as _ec2
    longrun.churn_then_replay(
        ctx, _ec2, "calculate_lm", lambda k: (1 + k % 3, 2 ** 27 + k, k % 9 - 4, k % 1000), _early,
        lambda it: one_case(ctx, mon, it[0], it[1], it[2], it[3], it[4]), n_quick=70_000, n_thorough=140_000)
    ctx.need("history: asked again after many other distinct requests", 30)
    import_time_phase(ctx, ctx.budget(600, 5000))
    mon = install(ctx)
    for cls in NEEDED + ["history: related arguments after a previous call", "module imported under low precision",
                         "'clear' passed as a string built at run time", "arguments passed by keyword",
                         "after a failed call (malformed arguments, exception caught by the caller)"]:
        ctx.need(cls, 30)
    ctx.need("monitor:calculate_lm evaluated", 30_000)
    ctx.need("monitor:cross-check through move_dist_lt", 20_000)
    ctx.need("oracle self-check (literal ticking)", 1000)
    ctx.need("history: after calls to other library functions", 200)
    contracts.uninstall_all()


def replay(ctx, rec):
    w = rec["witness"]
    if w.get("imported_under"):
        G.reload_ebb_calc(tuple(w["imported_under"]))
    mon = install(ctx)
    mon.imported_under = w.get("imported_under")
    if w.get("previous_call"):
        one_case(ctx, mon, *w["previous_call"])
    steps, rate, accel, accum = w["args"]
    ctx.case(["replay"], None)
    one_case(ctx, mon, steps, rate, accel, accum,
             "moveTimeLM" if w["fn"] == "moveTimeLM" else "calculate_lm")
    contracts.uninstall_all()
