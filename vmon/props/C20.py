"""C20 - text helpers: XML escaping round-trips; durations format to the nearest second.

Monitors: icontract post-conditions on the real text_utils.xml_escape (syntactic check of
the escaped form + read-back by lxml in element content and in single- and double-quoted
attributes) and text_utils.format_hms (the printed text is parsed back to seconds)."""
import re
from fractions import Fraction

from .. import contracts

LEVEL = "exploration"
THOROUGH_SHARDS = 8
RULE = ("escape: seeded strings over the XML 1.0 Char production (ASCII, each of the five specials, "
        "pre-escaped text such as '&amp;lt;', mixed quotes, BMP and astral characters, TAB/LF/CR), "
        "distinct by string, non-trivial when a special character is present; durations: seeded values "
        "around 10, 59.5, 60, 3599.5, 3600, k*60+-0.5, k*3600+-0.5 and random up to 1e7, ints and "
        "floats, seconds and milliseconds, distinct by value, non-trivial when >= 10 s")
ASSUMPTIONS = ["standard XML parser = lxml/libxml2 (the repository's own dependency)",
               "exact .5 ties may legitimately round either way (nearest second)"]

# the five predefined entities and numeric character references (&#13; / &#x0D;): both are "entities" in the
# sense of the statement - what must not occur is a special character that the parser would take as markup
ENTITY = re.compile(r"&(amp|lt|gt|quot|apos|#[0-9]{1,7}|#x[0-9A-Fa-f]{1,6});")
HMS = re.compile(r"^(\d+):(\d\d):(\d\d) \(Hours, minutes, seconds\)$")
MS = re.compile(r"^(\d+):(\d\d) \(Minutes, seconds\)$")
SEC = re.compile(r"^(\d\d) Seconds$")
MILLI = re.compile(r"^(\d+\.\d\d\d) Seconds$")


def xml_normalised(text, context):
    """What an XML 1.0 processor hands back for literal TAB/LF/CR (spec 2.11 and 3.3.3)."""
    out = text.replace("\r\n", "\n").replace("\r", "\n")
    if context != "content":
        out = out.replace("\n", " ").replace("\t", " ")
    return out


def classify(rec):
    w = rec["witness"]
    if rec["kind"] != "escaped text is not read back as the original" or not isinstance(w.get("read_back"), str):
        return None
    if any(ch in w["text"] for ch in "\t\n\r") and w["read_back"] == xml_normalised(w["text"], w["context"]):
        return "xml-whitespace-normalisation"
    # the same mechanism when only some of the three characters are still written literally (a partial
    # repair that emits &#13; for CR but leaves TAB / LF): the escaped form contains a literal TAB/LF/CR and
    # original and read-back differ in nothing but which white-space characters stand at those places
    def canon(t):
        return re.sub(r"[\t\n\r ]+", " ", t)        # runs, because CR LF may come back as one or two characters
    if any(ch in w.get("escaped", "") for ch in "\t\n\r") and canon(w["text"]) == canon(w["read_back"]):
        return "xml-whitespace-normalisation"
    return None


class Monitor:
    def __init__(self, ctx):
        self.ctx = ctx
        from lxml import etree
        self.etree = etree

    # ---- xml_escape ------------------------------------------------------
    def post_escape(self, input_text, result):
        ctx = self.ctx
        if not isinstance(input_text, str):
            ctx.count("skipped:not a string")
            return True
        if not all(ch in "\t\n\r" or 0x20 <= ord(ch) <= 0xD7FF or 0xE000 <= ord(ch) <= 0xFFFD or
                   0x10000 <= ord(ch) <= 0x10FFFF for ch in input_text):
            ctx.count("skipped:text with characters outside the XML Char production (outside the statement)")
            return True
        ctx.count("monitor:xml_escape evaluated")
        if not isinstance(result, str):
            ctx.violation("escape result is not text", {"fn": "xml_escape", "text": input_text, "got": result})
            return True
        residue = ENTITY.sub("", result)
        bad = [ch for ch in "<>\"'&" if ch in residue]
        if bad:
            ctx.violation("special character outside an entity", {
                "fn": "xml_escape", "text": input_text, "escaped": result, "characters": bad})
            return True
        etree = self.etree
        for context, doc in (("content", "<a>%s</a>" % result),
                             ("double-quoted attribute", '<a b="%s"/>' % result),
                             ("single-quoted attribute", "<a b='%s'/>" % result)):
            try:
                root = etree.fromstring(doc.encode("utf-8"))
                back = (root.text or "") if context == "content" else root.get("b")
            except etree.XMLSyntaxError as exc:
                ctx.violation("escaped text is not well-formed XML", {
                    "fn": "xml_escape", "text": input_text, "escaped": result, "context": context,
                    "error": str(exc)})
                continue
            ctx.count("monitor:read-back (%s)" % context)
            if back != input_text:
                ctx.violation("escaped text is not read back as the original", {
                    "fn": "xml_escape", "text": input_text, "escaped": result, "context": context,
                    "read_back": back})
        return True

    # ---- format_hms ------------------------------------------------------
    def post_hms(self, duration, milliseconds, result):
        ctx = self.ctx
        if isinstance(duration, bool) or not isinstance(duration, (int, float)) or \
                duration != duration or duration < 0 or duration in (float("inf"),):
            ctx.count("skipped:outside domain")
            return True
        seconds = Fraction(duration) / 1000 if milliseconds else Fraction(duration)
        if seconds > 10 ** 7:
            ctx.count("skipped:outside domain")
            return True
        ctx.count("monitor:format_hms evaluated")
        witness = {"fn": "format_hms", "duration": duration, "milliseconds": bool(milliseconds),
                   "got": result}
        if not isinstance(result, str):
            ctx.violation("not text", witness)
            return True
        # the code divides ms by 1000.0 in floating point; allow that one rounding
        slack = Fraction(1, 10 ** 9) if milliseconds else Fraction(0)
        m = MILLI.match(result)
        if m:
            printed = Fraction(m.group(1))
            if seconds >= 10 + slack:
                ctx.violation("millisecond form used for a duration >= 10 s", witness)
            elif abs(printed - seconds) > Fraction(5, 10 ** 4) + slack:
                ctx.violation("sub-10s duration not printed to the millisecond", witness)
            return True
        if seconds < 10 - slack:
            ctx.violation("duration under 10 s not printed in millisecond form", witness)
            return True
        form = None
        for name, rx in (("h:mm:ss", HMS), ("m:ss", MS), ("ss", SEC)):
            m = rx.match(result)
            if m:
                form, fields = name, [int(g) for g in m.groups()]
                break
        if form is None:
            ctx.violation("unrecognised output format", witness)
            return True
        if form == "h:mm:ss":
            encoded = fields[0] * 3600 + fields[1] * 60 + fields[2]
            in_range = fields[1] <= 59 and fields[2] <= 59
            form_ok = encoded >= 3600
        elif form == "m:ss":
            encoded = fields[0] * 60 + fields[1]
            in_range = fields[1] <= 59
            form_ok = 60 <= encoded < 3600
        else:
            encoded = fields[0]
            in_range = True
            form_ok = encoded < 60
        witness["encoded_seconds"] = encoded
        if abs(encoded - seconds) > Fraction(1, 2) + slack:
            ctx.violation("encoded duration is not the nearest second", witness)
        elif not in_range:
            ctx.violation("minutes/seconds field outside 00..59", witness)
        elif not form_ok:
            ctx.violation("h:mm:ss / m:ss / ss form not chosen by the rounded value", witness)
        return True


def install(ctx):
    from plotink import text_utils
    mon = Monitor(ctx)
    contracts.install(text_utils, "xml_escape", post=mon.post_escape, ctx=ctx)
    contracts.install(text_utils, "format_hms", post=mon.post_hms, ctx=ctx)
    return mon


# ---------------------------------------------------------------- generators
SPECIALS = "&<>\"'"
PRE = ["&amp;", "&lt;", "&gt;", "&quot;", "&apos;", "&amp;lt;", "&amp;amp;", "&#38;", "&#x3C;", "&nbsp;",
       "&", "&&", "&;", "& amp;", "&amp", "<!--", "-->", "]]>", "<![CDATA[", "<?xml", "</a>", "'\"'", "\"'\""]


def gen_char(rng):
    c = rng.random()
    if c < 0.45:
        return chr(rng.randint(0x20, 0x7E))
    if c < 0.62:
        return rng.choice(SPECIALS)
    if c < 0.72:
        return chr(rng.randint(0xA0, 0x7FF))
    if c < 0.82:
        return chr(rng.choice((rng.randint(0x800, 0xD7FF), rng.randint(0xE000, 0xFFFD))))
    if c < 0.90:
        return chr(rng.randint(0x10000, 0x10FFFF))
    if c < 0.95:
        return rng.choice((" ", "  "))
    return rng.choice(("\u0085", " ", " ", "﻿", "\u007f", "�", "퟿", ""))


def gen_text(rng):
    """(class, string) over XML Char."""
    c = rng.random()
    if c < 0.10:
        return "ascii", "".join(chr(rng.randint(0x20, 0x7E)) for _ in range(rng.randint(0, 40)))
    if c < 0.22:
        ch = rng.choice(SPECIALS)
        return "single special %s" % {"&": "amp", "<": "lt", ">": "gt", '"': "quot", "'": "apos"}[ch], \
            "".join(rng.choice((ch, "a", "b", " ")) for _ in range(rng.randint(1, 12))) + ch
    if c < 0.36:
        parts = [rng.choice(PRE + ["x", " ", "y"]) for _ in range(rng.randint(1, 6))]
        return "pre-escaped / markup-like", "".join(parts)
    if c < 0.46:
        return "mixed quotes", "".join(rng.choice(("'", '"', "a", " ", "=")) for _ in range(rng.randint(2, 16)))
    if c < 0.60:
        ws = rng.choice(("\t", "\n", "\r", "\r\n"))
        body = [gen_char(rng) for _ in range(rng.randint(0, 10))]
        body.insert(rng.randint(0, len(body)), ws)
        return "contains TAB/LF/CR", "".join(body)
    if c < 0.63:
        return "empty", ""
    if c < 0.66:
        # long texts with hundreds to thousands of special characters (a path's d attribute, a pasted
        # HTML fragment): anything that escapes "the first N occurrences" or works in bounded chunks
        n = rng.choice((255, 256, 257, 300, 512, 1000, 1025, 5000))
        style = rng.randrange(3)
        if style == 0:
            body = rng.choice(SPECIALS) * n
        elif style == 1:
            body = "".join(rng.choice(SPECIALS) for _ in range(n))
        else:
            body = "<i>x</i> " * (n // 8) + '"' * (n % 8)
        return "long text with hundreds of specials", body
    if c < 0.6615:
        # very long texts (a whole embedded document): specials exactly at the edges of power-of-two sized
        # windows and at the very end - where block-wise processing has its seams
        n = rng.choice((65536, 65537, 70000, 131072, 131073, 200000))
        body = ["a"] * n
        for pos in (65535, 65536, 131071, 131072, n - 1, n - 2, 0, rng.randrange(n)):
            if pos < n:
                body[pos] = rng.choice(SPECIALS)
        return "very long text (65536+ characters) with specials at window edges", "".join(body)
    return "mixed unicode", "".join(gen_char(rng) for _ in range(rng.randint(1, 30)))


def gen_duration(rng):
    """(class, value, milliseconds flag)"""
    c = rng.random()
    ms = rng.random() < 0.3
    if c < 0.12:
        v = rng.uniform(0, 10)
        cls = "under 10 s"
    elif c < 0.24:
        v = 10 + rng.choice((-1, 1)) * rng.choice((0, 1e-9, 1e-6, 4e-4, 5e-4, 6e-4, 1e-3, 0.01))
        cls = "around 10 s"
    elif c < 0.34:
        v = rng.choice((59.5, 60, 59.4999, 59.5001, 59, 60.5, 61.5, 58.5)) + rng.choice((0, 1e-9, -1e-9))
        cls = "around 60 s"
    elif c < 0.44:
        v = rng.choice((3599.5, 3600, 3599.4999, 3599.5001, 3599, 3600.5, 3598.5)) + rng.choice((0, 1e-9, -1e-9))
        cls = "around 3600 s"
    elif c < 0.56:
        k = rng.randint(1, 2000)
        v = k * 60 + rng.choice((-0.5, -0.5000001, -0.4999999, 0, 0.5, 0.4999, 0.5001, -1, 59.5, 59.4))
        cls = "minute boundary"
    elif c < 0.66:
        k = rng.randint(1, 2700)
        v = k * 3600 + rng.choice((-0.5, -0.5000001, -0.4999999, 0, 0.5, 0.4999, -1, 3599.5, 59.5))
        cls = "hour boundary"
    elif c < 0.76:
        v = rng.randint(0, 10 ** 7)
        cls = "integer seconds"
    elif c < 0.86:
        v = rng.randint(0, 10 ** 6) + 0.5
        cls = "exact half second (tie)"
    else:
        v = 10 ** rng.uniform(1, 7)
        cls = "random float"
    v = max(0.0, min(v, 1e7)) if not isinstance(v, int) else v
    if ms:
        v = v * 1000
        if rng.random() < 0.5:
            v = int(round(v))
        cls += " (milliseconds)"
    elif rng.random() < 0.15 and float(v) == int(v):
        v = int(v)
    return cls, v, ms


def drive_escape(ctx, text):
    from plotink import text_utils
    try:
        text_utils.xml_escape(text)
    except Exception as exc:
        ctx.violation("exception", {"fn": "xml_escape", "text": text, "exception": repr(exc)})


def drive_hms(ctx, value, ms):
    from plotink import text_utils
    try:
        got = text_utils.format_hms(value, True) if ms else \
            (text_utils.format_hms(value) if ctx.rng.random() < 0.5 else text_utils.format_hms(value, False))
        if ms:
            same = text_utils.format_hms(value / 1000.0)
            ctx.count("monitor:milliseconds == seconds text")
            if same != got:
                ctx.violation("millisecond input differs from the equivalent seconds", {
                    "fn": "format_hms", "duration": value, "milliseconds": True, "got": got,
                    "seconds_text": same})
    except Exception as exc:
        ctx.violation("exception", {"fn": "format_hms", "duration": value, "milliseconds": ms,
                                    "exception": repr(exc)})


def alphabet_sweep(ctx, rng):
    """Every XML-legal code point (other than TAB/LF/CR, which have their own class) is put through the
    monitors at least once, in a text that also holds the five special characters.  A rewrite that
    borrows some legal character as an in-band stand-in (a private-use or 'unused' code point, a
    replacement or object character, a non-character of the FDD0 block, a C1 control) makes the text
    that contains that character read back differently - whichever character it picked.
    quick tier: the whole BMP plus a per-seed sample of the supplementary planes; thorough: all of it
    (shards take alternate chunks)."""
    ranges = [(0x20, 0xD7FF), (0xE000, 0xFFFD)]
    chunks = []
    for lo, hi in ranges:
        for start in range(lo, hi + 1, 64):
            chunks.append((start, min(start + 63, hi)))
    astral = [(start, start + 255) for start in range(0x10000, 0x110000, 256)]
    if ctx.tier == "quick":
        astral = rng.sample(astral, 400) + [(0xF0000, 0xF00FF), (0x10FF00, 0x10FFFF), (0xFFF00, 0xFFFFF),
                                            (0x100000, 0x1000FF), (0xE0000, 0xE00FF)]
    else:
        astral = [c for i, c in enumerate(astral) if i % ctx.nshards == ctx.shard]
    covered = 0
    for lo, hi in chunks + astral:
        body = "".join(chr(cp) for cp in range(lo, hi + 1))
        text = "&<" + body + ">\"'&"
        ctx.case(["escape:alphabet sweep (every legal code point next to the specials)"], ("sweep", lo, hi))
        drive_escape(ctx, text)
        covered += len(body)
    ctx.extra["alphabet_sweep_code_points_covered"] = ctx.extra.get("alphabet_sweep_code_points_covered", 0) + covered
    for s in SPECIALS:
        for base in (0xF000, 0xE000, 0xFF00 - 0x20, 0x2400, 0xF0000, 0x100000):
            ch = chr(base + ord(s))
            ctx.case(["escape:stand-in candidate (special character shifted into another block)"], ("standin", ch))
            drive_escape(ctx, "A" + ch + "B")
            drive_escape(ctx, ch + s + ch)
    for ch in ("\ufffd", "\ufffc", "\ufff9", "\ufdd0", "\ufdef", "\ue000", "\uf8ff", "\u0080", "\u009f", "\u007f",
               "\U0010fffd", "\U000f0000", "\u2028", "\u2029", "\ufeff", "\u200b", "\u001f"[:0] or "\u0085"):
        ctx.case(["escape:stand-in candidate (replacement / object / non-character / control)"], ("standin2", ch))
        drive_escape(ctx, "x" + ch + "&" + ch + "<y>")


def run(ctx):
    from .. import wtests
    wtests.run(ctx)
    install(ctx)
    rng = ctx.rng
    from .. import longrun
    _early_t, _early_d = longrun.Early(), longrun.Early()
    alphabet_sweep(ctx, rng)
    ctx.need("escape:alphabet sweep (every legal code point next to the specials)", 1300)
    ctx.need("escape:stand-in candidate (special character shifted into another block)", 30)
    n = ctx.budget(25_000, 400_000)
    for _ in range(n):
        if not ctx.alive():
            break
        if rng.random() < 0.01:
            from .. import noise
            noise.burst(ctx, rng, exclude=('text',))
        cls, text = gen_text(rng)
        if rng.random() < 0.02:
            # history: a call the caller gets wrong and survives (text with characters that are not
            # XML-legal, a non-string) - outside the statement, but it must leave nothing behind
            from plotink import text_utils as _tu
            bad = rng.choice(("a<b\x00", "x&y\x0b\"q", "\ud800<", "<\x01>", None, 5, b"<a&b>", ["<"]))
            try:
                _tu.xml_escape(bad)
            except Exception:
                pass
            ctx.tag("history: after a failed / out-of-domain call")
        ctx.case(["escape:" + cls], ("e", text), nontrivial=any(ch in text for ch in SPECIALS + "\t\n\r"))
        ctx.sample({"text": text}, tag="escape:" + cls, per_tag=1)
        drive_escape(ctx, text)
        if len(text) < 200:
            _early_t.remember(text)
    m = ctx.budget(60_000, 1_000_000)
    for _ in range(m):
        if not ctx.alive():
            break
        if rng.random() < 0.005:
            from .. import noise
            noise.burst(ctx, rng, exclude=('text',))
        cls, value, ms = gen_duration(rng)
        if rng.random() < 0.01:
            from plotink import text_utils as _tu
            try:
                _tu.format_hms(rng.choice((None, "12", -5, float("nan"), [3], float("inf"))), rng.choice((True, False)))
            except Exception:
                pass
            ctx.tag("history: after a failed / out-of-domain call")
        ctx.case(["duration:" + cls], ("d", value, ms), nontrivial=value >= (10000 if ms else 10))
        ctx.sample({"duration": value, "milliseconds": ms}, tag="duration:" + cls, per_tag=1)
        drive_hms(ctx, value, ms)
        _early_d.remember((value, ms))
    # long memory: 100000+ distinct texts / durations (raw), then the first cases of the run once more
    from plotink import text_utils as _tu2
    longrun.churn_then_replay(ctx, _tu2, "xml_escape", lambda k: ("t%d<&>%d" % (k, k % 13),), _early_t,
                              lambda t: drive_escape(ctx, t), n_quick=110_000, n_thorough=200_000)
    longrun.churn_then_replay(ctx, _tu2, "format_hms", lambda k: (k * 0.37 + 0.001, bool(k % 2)), _early_d,
                              lambda it: drive_hms(ctx, *it), n_quick=110_000, n_thorough=200_000)
    ctx.need("history: asked again after 100000+ other distinct requests", 60)
    for cls in ("ascii", "single special amp", "single special lt", "single special gt",
                "single special quot", "single special apos", "pre-escaped / markup-like",
                "mixed quotes", "contains TAB/LF/CR", "mixed unicode", "empty", "long text with hundreds of specials"):
        ctx.need("escape:" + cls, 100)
    for cls in ("under 10 s", "around 10 s", "around 60 s", "around 3600 s", "minute boundary",
                "hour boundary", "integer seconds", "exact half second (tie)", "random float",
                "around 10 s (milliseconds)", "minute boundary (milliseconds)"):
        ctx.need("duration:" + cls, 100)
    ctx.need("escape:very long text (65536+ characters) with specials at window edges", 10)
    ctx.need("history: after a failed / out-of-domain call", 300)
    ctx.need("monitor:xml_escape evaluated", 10_000)
    ctx.need("monitor:read-back (content)", 10_000)
    ctx.need("monitor:read-back (double-quoted attribute)", 10_000)
    ctx.need("monitor:read-back (single-quoted attribute)", 10_000)
    ctx.need("monitor:format_hms evaluated", 30_000)
    ctx.need("history: after calls to other library functions", 300)
    contracts.uninstall_all()


def replay(ctx, rec):
    install(ctx)
    w = rec["witness"]
    ctx.case(["replay"], None)
    if w["fn"] == "xml_escape":
        drive_escape(ctx, w["text"])
    else:
        drive_hms(ctx, w["duration"], w["milliseconds"])
    contracts.uninstall_all()
