"""C19 - port discovery picks only EiBotBoards, in enumeration order, and finds by name.

Monitor: the module-level `comports` of ebb_serial and ebb3_serial is replaced by a stub that
returns a generated port list; recording wrappers on the real discovery functions
(findPort / EBB3.find_first, listEBBports / list_ebb_ports, list_named_ebbs x2,
find_named_ebb / find_named) compare every return value with an oracle written from the
statement: two-pass first match, order-preserving filter, and for every listed board and every
name form the library reports for it (as is / upper / lower / serial tag / port name) the
lookup lands on that board unless an earlier port matches a documented criterion too."""
import json

LEVEL = "exploration"
THOROUGH_SHARDS = 16
RULE = ("port lists of 0..8 entries mixing: macOS/Linux EBBs ('EiBotBoard' / 'EiBotBoard,Name' descriptors), Windows "
        "pyserial-3 EBBs ('USB Serial Device (COMn)' + 'SER=... LOCATION'), pyserial-2.7 EBBs ('SNR='), EBBs without a "
        "serial tag, foreign devices (FTDI, Arduino - one carrying an EBB-looking SER= tag -, legacy COM port, "
        "Bluetooth 'n/a'), duplicated names, names that are prefixes of each other, one-character names; every "
        "discovery function of both layers is called on each list and every reported board is looked up by each name "
        "form. One evaluation = one checked return value; distinct by (list, function, lookup name); non-trivial when "
        "the list has at least one entry")
ASSUMPTIONS = ["documented lookup criteria (case-insensitive): 'SER='+name in the hardware id, '('+name+')' in the "
               "description, the text after 'EiBotBoard,' starts with name, the port name starts with name; the legacy "
               "layer additionally 'SNR='+name in the hardware id",
               "when an earlier port matches one of these criteria any port at or before the board's position is "
               "accepted; agreement between the layers is demanded for lists without SNR= tags"]

VIDPID = "USB VID:PID=04D8:FD92"
# names as users type or paste them: decomposed accents (e + U+0301), compatibility singletons (ANGSTROM SIGN,
# OHM SIGN), precomposed letters, non-Latin scripts.  Only names whose case mapping is stable
# (x.upper().lower() == x.lower()) - "case-insensitively" has no single meaning for the others (sharp s ...)
UNICODE_NAMES = [n for n in ["Cafe\u0301", "\u212bngstro\u0308m", "Zo\u00eb 2", "\u2126mega", "\u03a9mega", "plotter-\u65e5\u672c",
                             "\u0410\u043a\u0441\u0438", "nai\u0308ve", "\u00c5sa", "A\u030asa", "e\u0301e\u0301", "\u1e9b\u0323x"]
                 if n.upper().lower() == n.lower() and n.lower().upper().lower() == n.lower()]
NAMES = UNICODE_NAMES + ["EiBotBoard 2", "My EiBotBoard 3", "EiBotBoard", "SER=7", "LOCATION", "USB VID", "(COM3)", "Ada", "AxiDraw 7", "AxiDraw_7", "north-east", "A", "Ad", "ADA", "Plotter42", "x" * 16, "Bob", "bob2", "COM", "dev"]


def classify(rec):
    return None


def gen_port(rng, idx, used):
    """One (port name, description, hardware id, kind)."""
    c = rng.randrange(13)
    name = rng.choice(NAMES)
    n = idx + rng.choice([0, 0, 10, 1410])
    if c == 12:
        # another field order in the hardware id (pyserial builds it from what the OS reports): LOCATION
        # before SER, or SER last with nothing after it - whatever name the library reports for such a
        # board, looking that name up must find the board again
        hwid = rng.choice(("%s LOCATION=4-%d SER=%s", "%s LOCATION=1-1.%d SER=%s"))  % (VIDPID, idx, name.replace(" ", "_"))
        if rng.random() < 0.5:
            return ("COM%d" % (3 + n), "USB Serial Device (COM%d)" % (3 + n), hwid, "ebb windows pyserial3")
        return ("/dev/ttyACM%d" % idx, "EiBotBoard", hwid, "ebb unnamed")
    if c == 0:
        return ("/dev/cu.usbmodem%d" % (1400 + n), "EiBotBoard", "%s SER=%s LOCATION=20-%d" % (VIDPID, rng.choice(["", "Unnamed", name]), idx), "ebb unnamed")
    if c == 1:
        return ("/dev/cu.usbmodem%d" % (1400 + n), "EiBotBoard,%s" % name, "%s SER=%s LOCATION=20-%d" % (VIDPID, name, idx), "ebb named (mac/linux)")
    if c == 2:
        return ("/dev/ttyACM%d" % idx, "EiBotBoard,%s" % name, "%s SER=%s LOCATION=1-1.%d" % (VIDPID, name, idx), "ebb named (mac/linux)")
    if c == 3:
        return ("COM%d" % (3 + n), "USB Serial Device (COM%d)" % (3 + n), "%s SER=%s LOCATION=1-%d" % (VIDPID, name.replace(" ", "_"), idx), "ebb windows pyserial3")
    if c == 4:
        return ("COM%d" % (3 + n), "USB Serial Device (COM%d)" % (3 + n), "%s SNR=%s" % (VIDPID, name), "ebb windows pyserial2.7")
    if c == 5:
        return ("/dev/ttyACM%d" % idx, "EiBotBoard", "%s LOCATION=1-%d" % (VIDPID, idx), "ebb without serial tag")
    if c == 6:
        return ("/dev/ttyUSB%d" % idx, "FT232R USB UART", "USB VID:PID=0403:6001 SER=A9007W%d LOCATION=1-%d" % (idx, idx), "foreign")
    if c == 7:
        return ("/dev/ttyACM%d" % (idx + 3), "Arduino Uno", "USB VID:PID=2341:0043 SER=%s LOCATION=1-%d" % (name, idx), "foreign with EBB-looking SER tag")
    if c == 8:
        return ("COM%d" % (1 + idx), "Communications Port (COM%d)" % (1 + idx), "ACPI\\PNP0501\\%d" % idx, "foreign")
    if c == 9:
        return ("/dev/cu.Bluetooth-Incoming-Port", "n/a", "n/a", "foreign")
    if c == 10:
        return ("COM%d" % (3 + n), "USB Serial Device (COM%d)" % (3 + n), "%s SER=%s LOCATION=1-%d" % (VIDPID, rng.choice(["", "ab", name]), idx), "ebb windows pyserial3")
    return ("/dev/ttyACM%d" % idx, "EiBotBoard,%s" % name, "%s LOCATION=1-%d" % (VIDPID, idx), "ebb named (mac/linux)")


def gen_list(rng):
    n = rng.choice([0, 1, 1, 2, 2, 3, 3, 4, 5, 6, 8])
    ports, kinds = [], []
    for i in range(n):
        p = gen_port(rng, i, ports)
        ports.append(p[:3])
        kinds.append(p[3])
    return ports, kinds


# ---- oracle, written from the statement --------------------------------------------------
def is_name_match(p):
    return p[1].startswith("EiBotBoard")


def is_vidpid_match(p):
    return p[2].startswith(VIDPID)


def first_board(ports):
    for p in ports:
        if is_name_match(p):
            return p[0]
    for p in ports:
        if is_vidpid_match(p):
            return p[0]
    return None


def board_list(ports):
    out = [p for p in ports if is_name_match(p) or is_vidpid_match(p)]
    return out or None


def criteria(p, name, legacy):
    low = name.lower()
    p0, p1, p2 = p[0].lower(), p[1].lower(), p[2].lower()
    out = []
    if "ser=" + low in p2:
        out.append("SER tag")
    if legacy and "snr=" + low in p2:
        out.append("SNR tag")
    if "(" + low + ")" in p1:
        out.append("(port) in description")
    if p1[11:].startswith(low):
        out.append("name tag")
    if p0.startswith(low):
        out.append("port name")
    return out


class Stub:
    """Port enumerator stand-in. Entries are handed out as plain tuples or as the objects pyserial
    really returns (serial.tools.list_ports_common.ListPortInfo: indexable, but equality and hash
    look at the device name only)."""

    def __init__(self):
        self.ports = []
        self.calls = 0
        self.entry_type = "tuple"

    def __call__(self):
        self.calls += 1
        if self.entry_type == "ListPortInfo":
            from serial.tools.list_ports_common import ListPortInfo
            out = []
            for dev, desc, hwid in self.ports:
                info = ListPortInfo(dev, skip_link_detection=True)
                info.description, info.hwid = desc, hwid
                out.append(info)
            return out
        if self.entry_type == "list":
            return [list(p) for p in self.ports]
        return list(self.ports)


class Installed:
    def __init__(self):
        from plotink import ebb_serial, ebb3_serial
        self.legacy, self.ebb3 = ebb_serial, ebb3_serial
        self.stub = Stub()
        self.saved = (ebb_serial.comports, ebb3_serial.comports)
        ebb_serial.comports = self.stub
        ebb3_serial.comports = self.stub

    def restore(self):
        self.legacy.comports, self.ebb3.comports = self.saved


def call(ctx, witness, label, fn, *args):
    try:
        return True, fn(*args)
    except Exception as exc:
        ctx.violation("discovery function raised", dict(witness, function=label, args=list(args), exception=repr(exc)))
        return False, None


def check_list(ctx, inst, rng, ports, kinds):
    legacy, ebb3 = inst.legacy, inst.ebb3
    inst.stub.ports = ports
    inst.stub.entry_type = rng.choice(("tuple", "ListPortInfo", "ListPortInfo", "list"))
    has_snr = any("SNR=" in p[2] for p in ports)
    witness = {"ports": [list(p) for p in ports], "entry_type": inst.stub.entry_type}
    key = json.dumps(ports)
    classes = ["list:n=%s" % ("0" if not ports else "1" if len(ports) == 1 else "2..3" if len(ports) <= 3 else "4+"),
               "entries:" + inst.stub.entry_type]
    classes += sorted({"has:" + k for k in kinds})
    nb = sum(1 for p in ports if is_name_match(p) or is_vidpid_match(p))
    classes.append("boards:%s" % ("0" if nb == 0 else "1" if nb == 1 else "2+"))
    if ports and first_board(ports) is not None:
        # the VID/PID pass is decisive when a VID/PID-only board precedes the first name match
        first_name = next((i for i, p in enumerate(ports) if is_name_match(p)), None)
        first_vid = next((i for i, p in enumerate(ports) if is_vidpid_match(p)), None)
        if first_name is not None and first_vid is not None and first_vid < first_name:
            classes.append("first: VID/PID-only board precedes a name match")
        elif first_name is None:
            classes.append("first: found by VID/PID only")
        else:
            classes.append("first: found by name")

    # --- first board ---
    want = first_board(ports)
    ok, got_l = call(ctx, witness, "ebb_serial.findPort", legacy.findPort)
    obj = ebb3.EBB3()
    ok3, _ = call(ctx, witness, "EBB3.find_first", obj.find_first)
    got_3 = obj.port_name
    ctx.case(classes + ["fn:first board"], ("first", key), nontrivial=bool(ports))
    ctx.count("monitor:return values checked", 2)
    if ok and got_l != want:
        ctx.violation("first-board discovery returned the wrong port", dict(witness, function="ebb_serial.findPort", returned=got_l, expected=want))
    if ok3 and got_3 != want:
        ctx.violation("first-board discovery returned the wrong port", dict(witness, function="EBB3.find_first", returned=got_3, expected=want))
    # the same EBB3 object re-used across enumerations (history): the answer belongs to THIS list
    shared = inst.__dict__.setdefault("shared_obj", ebb3.EBB3())
    prev_ports = inst.__dict__.get("prev_ports")
    oks, _ = call(ctx, witness, "EBB3.find_first (object re-used)", shared.find_first)
    ctx.count("monitor:return values checked")
    ctx.tag("history: object re-used after %s" % ("an empty list" if prev_ports == [] else "a list with a board"
                                                  if prev_ports and first_board(prev_ports) else "a list without boards / first use"))
    if not ports:
        ctx.tag("history: empty list on a re-used object")
    if oks and shared.port_name != want:
        ctx.violation("first-board discovery on a re-used object returned a port of an earlier enumeration",
                      dict(witness, function="EBB3.find_first", returned=shared.port_name, expected=want,
                           previous_ports=prev_ports))
    inst.prev_ports = [list(p) for p in ports]

    # --- listing ---
    want_list = board_list(ports)
    ok, got_l = call(ctx, witness, "ebb_serial.listEBBports", legacy.listEBBports)
    ok3, got_3 = call(ctx, witness, "ebb3_serial.list_ebb_ports", ebb3.list_ebb_ports)
    ctx.case(classes + ["fn:listing"], ("list", key), nontrivial=bool(ports))
    ctx.count("monitor:return values checked", 2)
    for label, okx, got in (("ebb_serial.listEBBports", ok, got_l), ("ebb3_serial.list_ebb_ports", ok3, got_3)):
        if okx and (got if got is None else [(p[0], p[1], p[2]) for p in got]) != want_list:
            ctx.violation("board listing is not the in-order filter of the enumeration",
                          dict(witness, function=label, returned=got, expected=want_list))

    # the caller owns what it got: editing a returned list must not change later answers
    for label, fn in (("ebb_serial.listEBBports", legacy.listEBBports), ("ebb3_serial.list_ebb_ports", ebb3.list_ebb_ports)):
        okx, got = call(ctx, witness, label, fn)
        if okx and isinstance(got, list):
            got.clear()
            okx2, again = call(ctx, witness, label, fn)
            ctx.count("monitor:return values checked")
            ctx.tag("history: listing asked again after the caller emptied the returned list")
            if okx2 and (again if again is None else [(p[0], p[1], p[2]) for p in again]) != want_list:
                ctx.violation("board listing changed after the caller edited an earlier result",
                              dict(witness, function=label, returned=again, expected=want_list))
    if rng.random() < 0.05:
        # a call the caller gets wrong and survives
        for bad in (5, b"COM3", ["x"], object()):
            for finder in (legacy.find_named_ebb, ebb3.find_named):
                try:
                    finder(bad)
                except Exception:
                    pass
        ctx.tag("history: after failed lookups (non-string names)")
    # --- names + lookups ---
    ok, names_l = call(ctx, witness, "ebb_serial.list_named_ebbs", legacy.list_named_ebbs)
    ok3, names_3 = call(ctx, witness, "ebb3_serial.list_named_ebbs", ebb3.list_named_ebbs)
    ctx.case(classes + ["fn:names"], ("names", key), nontrivial=bool(ports))
    ctx.count("monitor:return values checked", 2)
    boards = want_list or []
    for label, okx, names in (("ebb_serial.list_named_ebbs", ok, names_l), ("ebb3_serial.list_named_ebbs", ok3, names_3)):
        if not okx:
            continue
        if (names is None) != (not boards) or (names is not None and len(names) != len(boards)):
            ctx.violation("name listing does not have one name per board", dict(witness, function=label, returned=names,
                                                                               boards=[list(b) for b in boards]))
    if ok and ok3 and not has_snr and names_l != names_3:
        ctx.violation("the two layers report different names", dict(witness, legacy=names_l, ebb3=names_3))
    port_names = [p[0] for p in ports]
    for layer, names, finder, is_legacy in (("legacy", names_l if ok else None, legacy.find_named_ebb, True),
                                            ("ebb3", names_3 if ok3 else None, ebb3.find_named, False)):
        if not names or len(names) != len(boards):
            continue
        for b, reported in zip(boards, names):
            pos = ports.index(b)
            forms = {"as reported": reported, "upper": reported.upper(), "lower": reported.lower(), "port name": b[0],
                     "port name (case varied)": b[0].swapcase()}
            if "SER=" in b[2] and " LOCAT" in b[2]:
                tag = b[2][b[2].find("SER=") + 4:b[2].find(" LOCAT", b[2].find("SER=") + 4)]
                if len(tag) >= 3:
                    forms["serial tag"] = tag
            if is_legacy and "SNR=" in b[2]:
                forms["SNR tag"] = b[2][b[2].find("SNR=") + 4:]
            for form, name in forms.items():
                if not name:
                    continue
                okf, got = call(ctx, witness, layer + " lookup", finder, name)
                if not okf:
                    continue
                ctx.case(classes + ["fn:lookup", "lookup:" + form, "layer:" + layer], ("lookup", layer, key, name))
                ctx.count("monitor:return values checked")
                w = dict(witness, layer=layer, lookup=name, form=form, board=list(b), returned=got)
                if got is not None and got not in port_names:
                    ctx.violation("lookup returned a port that is not in the enumeration", w)
                    continue
                earlier = [j for j in range(pos) if criteria(ports[j], name, is_legacy)]
                own = criteria(b, name, is_legacy)
                if not own:
                    ctx.count("skipped:name form does not match its own board by a documented criterion")
                    continue
                if got is None:
                    ctx.violation("lookup by a name the library reports did not find the board", w)
                elif not earlier:
                    ctx.tag("lookup: no earlier port matches")
                    if got != b[0]:
                        ctx.violation("lookup returned another port although no earlier port matches", w)
                else:
                    ctx.tag("lookup: an earlier port matches too")
                    if port_names.index(got) > pos:
                        ctx.violation("lookup skipped the board and returned a later port", w)
        # arbitrary names: membership only
        for name in (rng.choice(NAMES), "zz-not-there", "COM", "/dev/", rng.choice(NAMES).lower()):
            okf, got = call(ctx, witness, layer + " lookup", finder, name)
            ctx.case(classes + ["fn:lookup", "lookup:arbitrary name", "layer:" + layer], ("lookup", layer, key, name))
            ctx.count("monitor:return values checked")
            if okf and got is not None and got not in port_names:
                ctx.violation("lookup returned a port that is not in the enumeration",
                              dict(witness, layer=layer, lookup=name, returned=got))
            if okf and got is not None and not any(criteria(p, name, is_legacy) for p in ports if p[0] == got):
                ctx.violation("lookup returned a port that matches none of the documented criteria",
                              dict(witness, layer=layer, lookup=name, returned=got))
    # layers agree on lookups when no SNR tag is involved
    if not has_snr:
        for name in [rng.choice(NAMES), rng.choice(NAMES).upper()] + [p[0] for p in ports[:2]]:
            ok_a, a = call(ctx, witness, "legacy lookup", legacy.find_named_ebb, name)
            ok_b, b = call(ctx, witness, "ebb3 lookup", ebb3.find_named, name)
            ctx.count("monitor:layer agreement checked")
            if ok_a and ok_b and a != b:
                ctx.violation("the two layers disagree on a lookup", dict(witness, lookup=name, legacy=a, ebb3=b))
    # None lookup
    for finder in (legacy.find_named_ebb, ebb3.find_named):
        okf, got = call(ctx, witness, "lookup(None)", finder, None)
        if okf and got is not None:
            ctx.violation("lookup of None returned a port", dict(witness, returned=got))


def enumerator_unavailable(ctx, inst):
    """The platform enumerator gives no list (None -> TypeError inside list()): every discovery
    function answers None and none raises; afterwards normal enumerations work again."""
    legacy, ebb3 = inst.legacy, inst.ebb3
    saved = (legacy.comports, ebb3.comports)
    legacy.comports = ebb3.comports = lambda: None
    witness = {"ports": None, "enumerator": "returns None"}
    try:
        obj = ebb3.EBB3()
        for label, fn, args in (("ebb_serial.findPort", legacy.findPort, ()), ("ebb_serial.listEBBports", legacy.listEBBports, ()),
                                ("ebb_serial.list_named_ebbs", legacy.list_named_ebbs, ()),
                                ("ebb_serial.find_named_ebb", legacy.find_named_ebb, ("Ada",)),
                                ("ebb3_serial.list_ebb_ports", ebb3.list_ebb_ports, ()),
                                ("ebb3_serial.list_named_ebbs", ebb3.list_named_ebbs, ()),
                                ("ebb3_serial.find_named", ebb3.find_named, ("Ada",)), ("EBB3.find_first", obj.find_first, ())):
            okx, got = call(ctx, witness, label, fn, *args)
            ctx.case(["enumerator unavailable (returns None)"], ("none", label), nontrivial=False)
            ctx.count("monitor:return values checked")
            if okx and got is not None:
                ctx.violation("discovery returned something although nothing was enumerated", dict(witness, function=label, returned=got))
        if obj.port_name is not None:
            ctx.violation("discovery returned something although nothing was enumerated",
                          dict(witness, function="EBB3.find_first", returned=obj.port_name))
    finally:
        legacy.comports, ebb3.comports = saved


def run(ctx):
    rng = ctx.rng
    inst = Installed()
    try:
        for _ in range(30):
            enumerator_unavailable(ctx, inst)
        for i in range(ctx.budget(20000, 150000)):
            if not ctx.alive():
                break
            if rng.random() < 0.01:
                from .. import noise
                noise.burst(ctx, rng, exclude=('versions', 'discovery'))
            ports, kinds = gen_list(rng)
            if i < 200:
                ctx.sample({"ports": ports}, tag="n=%d" % len(ports), per_tag=1)
            check_list(ctx, inst, rng, ports, kinds)
    finally:
        inst.restore()
    ctx.extra["enumerator_stub_calls"] = inst.stub.calls
    for cls in ("list:n=0", "list:n=1", "list:n=2..3", "list:n=4+", "boards:0", "boards:1", "boards:2+",
                "has:ebb unnamed", "has:ebb named (mac/linux)", "has:ebb windows pyserial3", "has:ebb windows pyserial2.7",
                "has:ebb without serial tag", "has:foreign", "has:foreign with EBB-looking SER tag",
                "first: VID/PID-only board precedes a name match", "first: found by VID/PID only", "first: found by name",
                "lookup:as reported", "lookup:upper", "lookup:lower", "lookup:port name", "lookup:port name (case varied)",
                "lookup:serial tag", "lookup:SNR tag", "lookup:arbitrary name", "layer:legacy", "layer:ebb3",
                "lookup: no earlier port matches", "lookup: an earlier port matches too",
                "entries:tuple", "entries:ListPortInfo", "entries:list"):
        ctx.need(cls, 100)
    ctx.need("monitor:return values checked", 50000)
    ctx.need("history: after calls to other library functions", 100)
    ctx.need("history: empty list on a re-used object", 200)
    ctx.need("enumerator unavailable (returns None)", 100)
    ctx.need("history: listing asked again after the caller emptied the returned list", 2000)
    ctx.need("history: after failed lookups (non-string names)", 100)
    ctx.need("history: object re-used after a list with a board", 1000)
    ctx.need("monitor:layer agreement checked", 5000)


def replay(ctx, rec):
    inst = Installed()
    try:
        ports = [tuple(p) for p in rec["witness"]["ports"]]
        check_list(ctx, inst, ctx.rng, ports, ["replay"] * len(ports))
    finally:
        inst.restore()
