"""C02 - T3 (jerk) move prediction and end rate == third-order firmware recurrence.

Monitors: icontract post-conditions on the real ebb_calc.move_dist_t3 and
ebb_calc.rate_t3 (the latter also sees the calls made by max_rate_t3)."""
from .. import contracts, gen_stepper as G
from ..oracles import stepper as S

LEVEL = "exploration"
THOROUGH_SHARDS = 16
RULE = ("seeded stratified generator over (T, rate, accel, jerk, accumulator|clear) x ambient "
        "mpmath precision, all inside the firmware-valid domain (every |rate_k| <= 2^31-1, exact "
        "check at the ends and the integer neighbours of the parabola vertex; accel + k*jerk in "
        "int32); distinct by full argument tuple; non-trivial when T >= 1")
ASSUMPTIONS = [
    "reference model = third-order integer recurrence as worded in the property (closed form in "
    "Python ints, self-checked against literal ticking for T <= 3000 in every run)",
    "the clear rule inspects the rates of ticks 1..3 as the firmware computes them, whatever T is",
]
M = S.M


def classify(rec):
    return None


def _ints(*vals):
    return all(type(v) is int for v in vals)


class Monitor:
    def __init__(self, ctx):
        self.ctx = ctx
        self.ambient = None
        self.last_move = None
        self.last_rate = None
        self.prev_call = None       # the monitored call before the current one (history witness)
        self.this_call = None
        self.imported_under = None

    def _enter(self, fn, args):
        self.prev_call, self.this_call = self.this_call, [fn, list(args)]

    def post_move(self, time, rate, accel, jerk, accum, result):
        ctx = self.ctx
        if not _ints(time, rate, accel, jerk) or not (accum == "clear" or type(accum) is int):
            ctx.count("skipped:non-integer input")
            return True
        if time < 1 or (accum != "clear" and not 0 <= accum < M) or abs(rate) > S.RMAX or \
                not S.t3_in_domain(rate, accel, jerk, time):
            ctx.count("skipped:outside domain")
            return True
        ctx.count("monitor:move_dist_t3 evaluated")
        self._enter("move_dist_t3", [time, rate, accel, jerk, accum])
        want = S.t3_expected(time, rate, accel, jerk, accum)
        self.last_move = want
        ok = (isinstance(result, tuple) and len(result) == 2 and _ints(*result)
              and tuple(result) == want)
        if not ok:
            ctx.violation("move_dist_t3 != recurrence", {
                "fn": "move_dist_t3", "args": [time, rate, accel, jerk, accum],
                "ambient": self.ambient, "previous_call": self.prev_call, "imported_under": self.imported_under,
                "got": result, "expected": list(want)})
        return True

    def post_rate(self, time, rate, accel, jerk, result):
        ctx = self.ctx
        if not _ints(time, rate, accel, jerk):
            ctx.count("skipped:non-integer input")
            return True
        if time < 1 or abs(rate) > S.RMAX or not S.t3_in_domain(rate, accel, jerk, time):
            ctx.count("skipped:outside domain")
            return True
        ctx.count("monitor:rate_t3 evaluated")
        self._enter("rate_t3", [time, rate, accel, jerk])
        want = S.t3_rate(rate, accel, jerk, time)
        self.last_rate = want
        if type(result) is not int or result != want:
            ctx.violation("rate_t3 != recurrence", {
                "fn": "rate_t3", "args": [time, rate, accel, jerk],
                "ambient": self.ambient, "previous_call": self.prev_call, "imported_under": self.imported_under,
                "got": result, "expected": want})
        return True


def install(ctx):
    from plotink import ebb_calc
    mon = Monitor(ctx)
    contracts.install(ebb_calc, "move_dist_t3", post=mon.post_move, ctx=ctx)
    contracts.install(ebb_calc, "rate_t3", post=mon.post_rate, ctx=ctx)
    return mon


def one_case(ctx, mon, time, rate, accel, jerk, accum, ambient):
    from plotink import ebb_calc
    mon.ambient = ambient.describe()
    try:
        with ambient:
            if (rate + time) % 9 == 0:
                got = G.by_keyword(ebb_calc.move_dist_t3, (time, rate, accel, jerk, accum))
                G.by_keyword(ebb_calc.rate_t3, (time, rate, accel, jerk))
                ctx.tag("arguments passed by keyword")
            else:
                got = ebb_calc.move_dist_t3(time, rate, accel, jerk, accum)
                ebb_calc.rate_t3(time, rate, accel, jerk)
            if jerk == 0:
                lt = ebb_calc.move_dist_lt(rate, accel, time, accum)
                ctx.count("monitor:zero-jerk coincidence with move_dist_lt")
                if tuple(lt) != tuple(got):
                    ctx.violation("zero-jerk T3 != timed move", {
                        "fn": "move_dist_t3", "args": [time, rate, accel, jerk, accum],
                        "ambient": mon.ambient, "got": got, "move_dist_lt": lt})
    except Exception as exc:
        ctx.violation("exception", {"fn": "move_dist_t3", "args": [time, rate, accel, jerk, accum],
                                    "ambient": mon.ambient, "exception": repr(exc)})


def related_calls(ctx, mon, rng, time, rate, accel, jerk, accum):
    """History: the next calls share some arguments with the previous one and differ in others
    (the second axis of the same segment, the same move with another start rate / duration /
    accumulator, arguments that differ by one). Every call is decided by the contracts."""
    from plotink import ebb_calc
    for _ in range(rng.randint(1, 3)):
        c = rng.randrange(7)
        t2, r2, a2, j2, acc2 = time, rate, accel, jerk, accum
        if c == 0:
            r2 = rng.choice((-rate // 2, rate + 1, rate - 1, -rate, rng.randint(-10 ** 6, 10 ** 6), 0))
        elif c == 1:
            t2 = rng.choice((1, 2, 3, max(1, time - 1), max(1, time // 2)))
        elif c == 2:
            acc2 = rng.choice(("clear", 0, M - 1, rng.randrange(M)))
        elif c == 3:
            j2 = rng.choice((jerk + 1, jerk - 1, -jerk, 0))
        elif c == 4:
            a2 = rng.choice((accel + 1, accel - 1, -accel, 0))
        elif c == 5:                       # -1 <-> -2 (equal hashes in CPython), 0 <-> -0
            r2, a2, j2 = [(-2 if v == -1 else -1 if v == -2 else v) for v in (rate, accel, jerk)]
            if (r2, a2, j2) == (rate, accel, jerk):
                j2 = rng.choice((-1, -2))
        else:
            r2 = -rate // 2 if rate else 12345
            acc2 = "clear"
        if abs(r2) > S.RMAX or not S.t3_in_domain(r2, a2, j2, t2):
            ctx.count("history:related call outside the domain (skipped)")
            continue
        ctx.case(["history: related arguments after a previous call", "history:variant %d" % c],
                 ("rel", t2, r2, a2, j2, acc2, time, rate, accel, jerk))
        try:
            which = rng.randrange(3)
            if which == 0:
                ebb_calc.rate_t3(t2, r2, a2, j2)
            elif which == 1:
                ebb_calc.move_dist_t3(t2, r2, a2, j2, acc2)
            else:
                ebb_calc.rate_t3(t2, r2, a2, j2)
                ebb_calc.move_dist_t3(t2, r2, a2, j2, acc2)
        except Exception as exc:
            ctx.violation("exception", {"fn": "move_dist_t3", "args": [t2, r2, a2, j2, acc2],
                                        "ambient": mon.ambient, "previous_call": mon.prev_call,
                                        "exception": repr(exc)})
        time, rate, accel, jerk, accum = t2, r2, a2, j2, acc2


def import_time_phase(ctx, n_per_setting):
    rng = ctx.rng
    for setting in G.IMPORT_SETTINGS:
        contracts.uninstall_all()
        G.reload_ebb_calc(setting)
        mon = install(ctx)
        mon.imported_under = list(setting)
        done = 0
        while done < n_per_setting and ctx.alive():
            case = G.gen_t3_case(rng)
            if case is None:
                continue
            classes, time, rate, accel, jerk, accum = case
            if rng.random() < 0.5:
                accum = "clear"
            ambient = G.pick_ambient(rng) if rng.random() < 0.5 else G.Ambient("dps", 15)
            ctx.case(["module imported under low precision", "imported under %s=%d" % setting],
                     (time, rate, accel, jerk, accum, "import", setting, ambient.kind, ambient.value))
            one_case(ctx, mon, time, rate, accel, jerk, accum, ambient)
            done += 1
    contracts.uninstall_all()
    G.reload_ebb_calc(None)


def self_check(ctx, time, rate, accel, jerk, accum):
    ctx.count("oracle self-check (literal ticking)")
    pos, acc, r_end, peak = S.tick_t3(time, rate, accel, jerk, accum)
    if (pos, acc) != S.t3_expected(time, rate, accel, jerk, accum) or \
            r_end != S.t3_rate(rate, accel, jerk, time) or peak != S.t3_peak(rate, accel, jerk, time):
        ctx.oracle_fault("closed form != literal ticking", [time, rate, accel, jerk, accum])


NEEDED = ["T=1", "T=2", "T=3", "T:4..20", "T:20..1e3", "T:1e3..1e5", "T:1e5..2^24", "T:2^24..2^28",
          "jerk=0", "accel=0", "accel odd neg", "accel odd pos", "accel even neg", "accel even pos",
          "r1=0,r2<0", "r1=0,r2>0", "r1=r2=0,r3<0", "r1=r2=0,r3>0", "r1=r2=r3=0",
          "peak strictly inside the move", "peak rate at +-(2^31-1)", "rate sign differs at the ends",
          "accum=clear", "accum=given", "total==kM", "total==kM-1",
          "ambient:dps", "ambient:prec", "ambient:workdps", "ambient:decimal"] + \
         ["jerk%%6=%d,%s" % (r, s) for r in range(6) for s in ("neg", "pos")]


def run(ctx):
    from .. import wtests
    wtests.run(ctx)
    mon = install(ctx)
    rng = ctx.rng
    n = ctx.budget(70_000, 700_000)
    done = 0
    from .. import longrun
    early = longrun.Early()
    while done < n and ctx.alive():
        case = G.gen_t3_case(rng)
        if case is None:
            ctx.count("generator:rejected draw (outside domain)")
            continue
        classes, time, rate, accel, jerk, accum = case
        ambient = G.pick_ambient(rng)
        if accum == "clear" and rng.random() < 0.3:
            accum = G.fresh_clear(rng)
            classes.append("'clear' passed as a string built at run time")
        if rng.random() < 0.004:
            from .. import noise
            noise.burst(ctx, rng, exclude=('stepper', 'legacy-stepper'))
        if rng.random() < 0.01:
            from plotink import ebb_calc as _ec
            G.failed_call(rng, rng.choice((_ec.move_dist_t3, _ec.rate_t3)), 5 if rng.random() < 0.5 else 4)
            classes.append("after a failed call (malformed arguments, exception caught by the caller)")
        classes.append("ambient:%s" % ambient.kind)
        ctx.case(classes, (time, rate, accel, jerk, accum, ambient.kind, ambient.value))
        ctx.sample({"T": time, "rate": rate, "accel": accel, "jerk": jerk, "accum": accum,
                    "ambient": ambient.describe()}, tag=classes[0])
        one_case(ctx, mon, time, rate, accel, jerk, accum, ambient)
        early.remember((time, rate, accel, jerk, accum))
        if rng.random() < 0.3:
            related_calls(ctx, mon, rng, time, rate, accel, jerk, accum)
        if time <= 3000 and done % 4 == 0:
            self_check(ctx, time, rate, accel, jerk, accum)
        done += 1
    from plotink import ebb_calc as _ec
    longrun.churn_then_replay(
        ctx, _ec, "move_dist_t3", lambda k: (1 + k % 5, 1000 + k, k % 17 - 8, (k % 3) - 1, k % 1000), early,
        lambda it: one_case(ctx, mon, it[0], it[1], it[2], it[3], it[4], G.Ambient("dps", 15)))
    ctx.need("history: asked again after 100000+ other distinct requests", 30)

    import_time_phase(ctx, ctx.budget(800, 6000))
    mon = install(ctx)
    for cls in NEEDED + ["history: related arguments after a previous call", "module imported under low precision",
                         "'clear' passed as a string built at run time", "arguments passed by keyword",
                         "after a failed call (malformed arguments, exception caught by the caller)"]:
        ctx.need(cls, 40)
    ctx.need("monitor:move_dist_t3 evaluated", 30_000)
    ctx.need("monitor:rate_t3 evaluated", 30_000)
    ctx.need("monitor:zero-jerk coincidence with move_dist_lt", 1000)
    ctx.need("oracle self-check (literal ticking)", 1000)
    ctx.need("history: after calls to other library functions", 150)
    contracts.uninstall_all()


def replay(ctx, rec):
    from plotink import ebb_calc
    w = rec["witness"]
    if w.get("imported_under"):
        G.reload_ebb_calc(tuple(w["imported_under"]))
    mon = install(ctx)
    mon.imported_under = w.get("imported_under")
    if w.get("previous_call"):
        fn, a = w["previous_call"]
        getattr(ebb_calc, fn)(*a)          # the history the witness depends on
        ctx.case(["replay"], None)
        getattr(ebb_calc, w["fn"])(*w["args"])
        contracts.uninstall_all()
        return
    args = w["args"]
    if w["fn"] == "rate_t3":
        args = args + ["clear"]
    time, rate, accel, jerk, accum = args
    ctx.case(["replay"], None)
    one_case(ctx, mon, time, rate, accel, jerk, accum, G.Ambient(*(w.get("ambient") or ["dps", 15])))
    contracts.uninstall_all()
