"""pytest plugin: run the repository's own test-suite with one property's contracts installed.

Loaded with `-p vmon.pytest_plugin` in a subprocess started by vmon/wtests.py.  The contracts are
attached at configure time, i.e. before any test module is imported, so `from plotink.x import f`
in a test binds the decorated function.  Conditions record and return True: the outcome of the
tests themselves is not changed.  At the end the context is written to VERIF_PLUGIN_OUT."""
import importlib
import json
import os

_STATE = {}


def pytest_configure(config):
    prop = os.environ.get("VERIF_PLUGIN_PROP")
    if not prop:
        return
    from vmon import boot, core
    boot.setup_paths()
    mod = importlib.import_module("vmon.props." + prop)
    ctx = core.Ctx(prop, "quick", 0, replay_mode=True)      # replay_mode: no witness files from here
    ctx.classify = getattr(mod, "classify", None)
    _STATE["ctx"] = ctx
    _STATE["mon"] = mod.install(ctx)


def pytest_runtest_setup(item):
    mon = _STATE.get("mon")
    for name in ("calls", "code_calls", "depth_init", "depth_query"):   # per-call guards of some monitors
        if hasattr(mon, name):
            setattr(mon, name, 0)


def pytest_unconfigure(config):
    ctx = _STATE.get("ctx")
    out = os.environ.get("VERIF_PLUGIN_OUT")
    if ctx is None or not out:
        return
    from vmon import contracts
    contracts.uninstall_all()
    with open(out, "w") as fh:
        json.dump({"counters": ctx.counters, "violations": ctx.violations,
                   "records": [{"kind": r["kind"], "witness": r["witness"]} for r in ctx.violation_records],
                   "known_hits": {k: v["count"] for k, v in ctx.known_hits.items()},
                   "oracle_faults": ctx.oracle_faults}, fh, default=repr)
