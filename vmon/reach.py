"""Line reach of the anchored code (sys.monitoring, Python 3.12+).

What a monitor never executed it has not observed.  While a check runs, a LINE callback records
every source line of the property's anchored files that the interpreter starts executing (each
location reports once and is then switched off with DISABLE, so the cost is one callback per
distinct line per code object - nothing measurable).  After the run the lines hit are compared
with the executable lines of every function in those files (from the code objects of the compiled
source), and the evidence file gets, per function: executable lines, lines reached, and the line
numbers never reached.  A function that a property's anchors NAME and of which no line was reached
makes the run inconclusive; unreached lines inside a reached function are reported, not judged
(they are where the next workload class should go).

Reach is evidence about the workload, never a verdict about the code."""
import json
import os
import re
import sys

TOOL_ID = 4
_state = {"hits": set(), "files": {}, "on": False}


def anchors_of(prop):
    """{absolute file: set(function names named by the property's anchors)} for every anchored file."""
    from . import boot
    out = {}
    with open(os.path.join(boot.VERIF_DIR, "properties.jsonl")) as fh:
        for line in fh:
            rec = json.loads(line)
            if rec["id"] != prop:
                continue
            for rel in rec["anchors"]["files"]:
                out[os.path.realpath(os.path.join(boot.REPO_DIR, rel))] = set()
            for mech in rec["anchors"]["mechanism"]:
                cur = None
                for tok in re.split(r"[;,]\s*", mech["where"]):
                    m = re.match(r"\s*([\w/]+\.py):([\w\.]+)", tok)
                    if m:
                        cur = m.group(1)
                        _add(out, boot.REPO_DIR, cur, m.group(2))
                        continue
                    m = re.match(r"\s*([\w/]+\.py)\b", tok)
                    if m:
                        cur = m.group(1)
                        continue
                    m = re.match(r"\s*([A-Za-z_][\w\.]*)\s+L\d", tok)
                    if m and cur:
                        _add(out, boot.REPO_DIR, cur, m.group(1))
    return out


def _add(out, repo, rel, name):
    for path in out:
        if path.endswith("/" + rel) or path.endswith("/plotink/" + rel):
            out[path].add(name.split(".")[-1])


def start(prop):
    mon = getattr(sys, "monitoring", None)
    if mon is None:
        return False
    _state["files"] = anchors_of(prop)
    _state["hits"] = set()
    files = _state["files"]
    hits = _state["hits"]

    def on_line(code, line):
        name = code.co_filename
        if name in files:
            hits.add((name, line))
        elif name not in _state.setdefault("seen", {}):
            # first line of a file we do not care about: remember the verdict so that the realpath
            # comparison happens once per file name
            real = os.path.realpath(name)
            _state["seen"][name] = real in files
            if real in files and real != name:
                files[name] = files[real]
                hits.add((name, line))
        return mon.DISABLE

    try:
        mon.use_tool_id(TOOL_ID, "verif-reach")
    except ValueError:
        return False
    mon.register_callback(TOOL_ID, mon.events.LINE, on_line)
    mon.set_events(TOOL_ID, mon.events.LINE)
    _state["on"] = True
    return True


def stop():
    if not _state["on"]:
        return None
    mon = sys.monitoring
    mon.set_events(TOOL_ID, 0)
    mon.register_callback(TOOL_ID, mon.events.LINE, None)
    mon.free_tool_id(TOOL_ID)
    _state["on"] = False
    out = {}
    for (name, line) in _state["hits"]:
        out.setdefault(os.path.realpath(name), set()).add(line)
    return {k: sorted(v) for k, v in out.items()}


def _functions(path):
    """[(qualified name, first line, set(executable lines))] for every function / method in the file."""
    with open(path) as fh:
        src = fh.read()
    top = compile(src, path, "exec")
    found = []

    def walk(code, prefix):
        for const in code.co_consts:
            if hasattr(const, "co_code"):
                qual = prefix + const.co_name
                lines = {ln for (_s, _e, ln) in const.co_lines() if ln is not None}
                lines.discard(const.co_firstlineno)      # the 'def' line belongs to the enclosing scope
                if not const.co_name.startswith("<"):
                    found.append((qual, const.co_firstlineno, lines))
                walk(const, qual + ".")
    walk(top, "")
    # a class body is a code object too: keep methods, drop the pseudo-function of the class body itself
    return [f for f in found if f[2]]


def report(hits_by_file, prop):
    """(evidence dict, list of anchored functions with no line reached)."""
    from . import boot
    files = anchors_of(prop)
    evidence = {}
    unreached_named = []
    for path, named in sorted(files.items()):
        if not os.path.exists(path):
            continue
        hit = set(hits_by_file.get(path, ()))
        rel = os.path.relpath(path, os.path.realpath(boot.REPO_DIR))
        per = {}
        tot_exec = tot_hit = 0
        class_bodies = set()
        funcs = _functions(path)
        for qual, first, lines in funcs:
            # class bodies show up as code objects named after the class; their 'lines' are the def lines of
            # the methods, executed at import - not interesting
            if any(q.startswith(qual + ".") for q, _f, _l in funcs) and not any(
                    qual.split(".")[-1] == n for n in named):
                class_bodies.add(qual)
        for qual, first, lines in funcs:
            if qual in class_bodies:
                continue
            simple = qual.split(".")[-1]
            got = lines & hit
            is_named = simple in named
            if not is_named and not got:
                continue                                  # other functions of the file: listed only if reached
            entry = {"executable_lines": len(lines), "reached": len(got)}
            missed = sorted(lines - got)
            if missed:
                entry["not_reached"] = missed[:60]
            if is_named:
                entry["named_by_the_anchors"] = True
                tot_exec += len(lines)
                tot_hit += len(got)
                if not got:
                    unreached_named.append("%s:%s" % (rel, qual))
            per[qual] = entry
        evidence[rel] = {"functions": per, "anchored_functions_lines": tot_exec, "anchored_functions_reached": tot_hit}
    return evidence, unreached_named
