"""Environment variants: the same workload in interpreters a user may well be running.

A property quantifies over inputs and histories, not over how the interpreter was started, so a
verdict obtained only in a default interpreter, on the main thread, under the default warning
filters and with a well-behaved clock is a verdict about one environment.  Each variant is a
separate process (quick tier: a reduced-budget extra run per variant, merged into the evidence;
thorough tier: some of the shards).  A variant changes nothing in the code under test or in the
monitors - only the interpreter state around them:

  optimized   python -O: `assert` statements (and `if __debug__:` blocks) are compiled away - a
              side effect placed inside an assert disappears.  (icontract is told `enabled=True`
              explicitly; its default would switch the monitors off under -O.)
  warnings    RuntimeWarning and UserWarning escalated to exceptions (-W error::RuntimeWarning ...),
              as under pytest's filterwarnings=error or PYTHONWARNINGS.  Deprecation-type warnings
              are left alone: deprecating an alias is a legitimate change.
  thread      the workload runs in a worker thread; the library was imported by the main thread
              (thread-local state initialised at import exists only there).
  clock       time.time / monotonic / perf_counter (and the _ns forms) jump forward by an hour
              every few readings, as after an NTP step, a suspend/resume or a stopped process.
              The harness reads the real clock through its own handle.
"""
import os
import sys
import threading

VARIANTS = ("optimized", "warnings", "thread", "clock")


def interpreter_args(variant):
    if variant == "optimized":
        return ["-O"]
    if variant == "warnings":
        return ["-W", "error::RuntimeWarning", "-W", "error::UserWarning"]
    return []


def describe(variant):
    return {"optimized": "python -O (asserts stripped)",
            "warnings": "RuntimeWarning / UserWarning raised as exceptions",
            "thread": "workload in a worker thread (library imported by the main thread)",
            "clock": "wall and monotonic clocks jump forward by an hour every few readings"}.get(variant, variant)


def check_active(variant):
    """Make sure the variant really is in force (an environment that silently did not apply decides nothing)."""
    if variant == "optimized":
        return sys.flags.optimize >= 1
    if variant == "warnings":
        import warnings
        try:
            warnings.warn("probe", RuntimeWarning)
        except RuntimeWarning:
            return True
        return False
    return True


def install_clock():
    import time
    real = {n: getattr(time, n) for n in ("time", "monotonic", "perf_counter", "time_ns", "monotonic_ns",
                                            "perf_counter_ns")}
    state = {"reads": 0, "offset": 0.0}

    def stepped(name, ns):
        fn = real[name]

        def read():
            state["reads"] += 1
            if state["reads"] % 3 == 0:
                state["offset"] += 3600.0
            return fn() + (int(state["offset"] * 1e9) if ns else state["offset"])
        return read
    for name in real:
        setattr(time, name, stepped(name, name.endswith("_ns")))
    return state


def run_workload(variant, fn):
    """Run fn() under the in-process part of the variant (thread / clock); -O and -W are process flags."""
    if variant == "clock":
        state = install_clock()
        try:
            return fn()
        finally:
            os.environ["VERIF_CLOCK_READS"] = str(state["reads"])
    if variant == "thread":
        from . import contracts
        contracts.FRESH_THREAD_EVERY = 23
        box = {}

        def target():
            try:
                box["result"] = fn()
            except BaseException as exc:     # noqa: B902 - handed back to the caller's thread
                box["error"] = exc
        # a generous C stack: the deep-recursion workloads need it in a non-main thread as well
        threading.stack_size(256 * 1024 * 1024)
        t = threading.Thread(target=target, name="verif-worker")
        t.start()
        t.join()
        if "error" in box:
            raise box["error"]
        return box.get("result")
    return fn()
