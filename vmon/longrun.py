"""Long memories: the same request asked again after a very large number of OTHER requests.

A correctly keyed cache, memo or ring that recycles its slots wrongly (the evicted key is left
behind and now points at another request's answer, a 16-bit counter or epoch tag wraps) answers
every first-time request and every recent repeat correctly, for any number of calls - it fails
only when a request is repeated after more distinct requests than it has slots.  The stratified
workloads never repeat a request that far apart, so each check ends with a *churn*: the first
cases of the run are kept, a large number of cheap, distinct, valid requests is made directly to
the unmonitored function (their answers are not needed, only their effect on whatever the code
remembers), and then the kept cases are asked again through the monitors."""
from . import contracts


def raw(fn):
    """The function under test without the contract wrapper (same code, no oracle evaluation)."""
    return getattr(fn, "__verif_original__", fn)


class Early:
    def __init__(self, keep=64):
        self.keep = keep
        self.items = []

    def remember(self, item):
        if len(self.items) < self.keep:
            self.items.append(item)


def churn_then_replay(ctx, owner, name, make_args, early, again, n_quick=140_000, n_thorough=300_000):
    """owner.name is called n times with make_args(i) (raw), then again(item) for every early item."""
    n = ctx.budget(n_quick, n_thorough)
    fn = raw(getattr(owner, name))
    failures = 0
    for i in range(n):
        try:
            fn(*make_args(i))
        except Exception:       # noqa: BLE001 - churn requests are valid; a failure is counted, not judged here
            failures += 1
    ctx.count("churn:%s raw requests" % name, n)
    if failures:
        ctx.count("churn:%s raw requests that raised" % name, failures)
    for item in early.items:
        again(item)
        ctx.tag("history: asked again after many other distinct requests")
        if n >= 100_000:
            ctx.tag("history: asked again after 100000+ other distinct requests")
    assert contracts  # keep the import (contracts stay installed while the churn runs)
