"""./check driver: runs one property's monitors in this process (quick, or one
thorough shard) or fans a thorough run out over seed-sharded subprocesses."""
import argparse
import importlib
import json
import os
import subprocess
import sys
import tempfile
import time
import traceback

from . import boot


def parse_args(argv):
    ap = argparse.ArgumentParser(prog="check")
    ap.add_argument("prop")
    ap.add_argument("--tier", default=os.environ.get("VERIF_TIER", "quick"),
                    choices=["quick", "thorough"])
    ap.add_argument("--seed", type=int, default=int(os.environ.get("VERIF_SEED", "0")))
    ap.add_argument("--replay", default=None)
    ap.add_argument("--shard", default=None, help="i/n (internal)")
    ap.add_argument("--part-out", default=None, help="(internal) shard state file")
    ap.add_argument("--jobs", type=int, default=int(os.environ.get("VERIF_JOBS", "16")))
    ap.add_argument("--variant", default=None, help="(internal) environment variant of this process")
    return ap.parse_args(argv)


def run_in_process(args, shard, nshards):
    from . import core
    boot.setup_paths()
    mod = importlib.import_module("vmon.props." + args.prop)
    ctx = core.Ctx(args.prop, args.tier, args.seed, shard, nshards,
                   level=getattr(mod, "LEVEL", "exploration"))
    ctx.classify = getattr(mod, "classify", None)
    ctx.rule = getattr(mod, "RULE", "")
    ctx.assumptions = list(getattr(mod, "ASSUMPTIONS", []))
    from . import envs, reach
    variant = getattr(args, "variant", None)
    ctx.variant = variant
    if variant:
        import random
        ctx.rng = random.Random("%s/%d/%d/%s/%s" % (args.prop, args.seed, shard, args.tier, variant))
        if not envs.check_active(variant):
            ctx.oracle_fault("environment variant %r is not in force in this process" % variant)
            return ctx
        ctx.note("environment variant in this process: " + envs.describe(variant))
    reaching = reach.start(args.prop) if os.environ.get("VERIF_REACH", "1") != "0" else False
    try:
        envs.run_workload(variant, lambda: mod.run(ctx))
    except Exception:  # a crash of the monitor itself is never a verdict
        traceback.print_exc()
        ctx.oracle_fault("monitor crashed: " + traceback.format_exc(limit=3)[-400:])
    finally:
        if reaching:
            ctx.reach = reach.stop()
    if variant:
        ctx.count("variant:%s evaluations" % variant, ctx.evaluations)
        for rec in ctx.violation_records:
            if isinstance(rec.get("witness"), dict):
                rec["witness"].setdefault("environment", envs.describe(variant))
    return ctx


def replay(args):
    from . import core
    boot.setup_paths()
    mod = importlib.import_module("vmon.props." + args.prop)
    with open(args.replay) as fh:
        rec = json.load(fh)
    ctx = core.Ctx(args.prop, "quick", args.seed, level=getattr(mod, "LEVEL", "exploration"),
                   replay_mode=True)
    ctx.classify = getattr(mod, "classify", None)
    hist = rec.get("witness", {}).get("after_other_library_calls") if isinstance(rec.get("witness"), dict) else None
    if hist:
        from . import noise
        noise.rerun(ctx, hist)
    mod.replay(ctx, rec)
    if ctx.violations:
        print("replay: violation reproduced (%d)" % ctx.violations)
        return core.EXIT_VIOLATED
    if ctx.known_hits:
        for mech, hit in ctx.known_hits.items():
            print("KNOWN-FINDING: property=%s %s [mechanism=%s]" % (args.prop, hit["what"], mech))
    print("replay: no violation on the current tree (monitor evaluations: %d)" % ctx.evaluations)
    return core.EXIT_HELD if ctx.evaluations else core.EXIT_INCONCLUSIVE


def main(argv=None):
    args = parse_args(argv or sys.argv[1:])
    t0 = time.time()
    if args.replay:
        return replay(args)
    from . import core
    if args.shard:                      # child of a thorough run
        i, n = map(int, args.shard.split("/"))
        ctx = run_in_process(args, i, n)
        with open(args.part_out, "w") as fh:
            json.dump(ctx.part(), fh, default=repr)
        core.save_distinct(ctx, args.part_out + ".distinct")
        return 0
    mod_shards = 1
    if args.tier == "thorough":
        boot.setup_paths()
        mod = importlib.import_module("vmon.props." + args.prop)
        mod_shards = min(args.jobs, getattr(mod, "THOROUGH_SHARDS", 16))
    if mod_shards <= 1:
        from . import envs
        # quick tier: the main run in this process, plus one reduced-budget run per environment variant
        variants = [] if os.environ.get("VERIF_VARIANTS", "1") == "0" else list(envs.VARIANTS)
        vprocs = []
        tmpdir = tempfile.mkdtemp(prefix="verif_%s_env_" % args.prop)
        for v in variants:
            part = os.path.join(tmpdir, "variant_%s.json" % v)
            cmd = [sys.executable] + envs.interpreter_args(v) + [
                "-m", "vmon.main", args.prop, "--tier", args.tier, "--seed", str(args.seed),
                "--shard", "0/1", "--variant", v, "--part-out", part]
            env = dict(os.environ, VERIF_BUDGET_SCALE=os.environ.get("VERIF_VARIANT_SCALE", "0.12"))
            vprocs.append((v, part, subprocess.Popen(cmd, cwd=boot.VERIF_DIR, env=env)))
        ctx = run_in_process(args, 0, 1)
        state = ctx.part()
        parts, dsets, failed = [state], [set(ctx.distinct)], 0
        for v, part, proc in vprocs:
            try:
                proc.wait(timeout=900)
            except subprocess.TimeoutExpired:
                proc.kill()
                proc.wait()
            if proc.returncode != 0 or not os.path.exists(part):
                failed += 1
                continue
            with open(part) as fh:
                parts.append(json.load(fh))
            dsets.append(core.load_distinct(part + ".distinct"))
        for name in os.listdir(tmpdir):
            os.unlink(os.path.join(tmpdir, name))
        os.rmdir(tmpdir)
        if len(parts) > 1:
            state = core.merge_parts(parts, dsets)
            state["nshards"] = 1
        else:
            state["distinct"] = len(ctx.distinct)
        for v in variants:
            state["thresholds"]["variant:%s evaluations" % v] = 1
        return core.finish(state, time.time() - t0, failed_shards=failed)
    # ---- thorough: seed-sharded subprocesses (not multiprocessing.Pool) -----
    tmpdir = tempfile.mkdtemp(prefix="verif_%s_" % args.prop)
    procs = []
    for i in range(mod_shards):
        part = os.path.join(tmpdir, "part%d.json" % i)
        from . import envs
        # the upper half of the shards run under the environment variants (two shards each when there are 16)
        variant = None
        if mod_shards >= 8 and i >= mod_shards // 2:
            variant = envs.VARIANTS[(i - mod_shards // 2) % len(envs.VARIANTS)]
        cmd = [sys.executable] + (envs.interpreter_args(variant) if variant else []) + [
            "-m", "vmon.main", args.prop, "--tier", "thorough",
            "--seed", str(args.seed), "--shard", "%d/%d" % (i, mod_shards),
            "--part-out", part] + (["--variant", variant] if variant else [])
        # each shard under another string-hash seed: set / dict-of-str iteration order is part of the
        # interpreter state a user's process has, and it is fixed (0) only in the quick tier
        procs.append((i, part, subprocess.Popen(cmd, cwd=boot.VERIF_DIR,
                                                env=dict(os.environ, PYTHONHASHSEED=str(i)))))
    parts, dsets, failed = [], [], 0
    limit = float(os.environ.get("VERIF_SHARD_TIMEOUT", "7200"))
    for i, part, proc in procs:
        try:
            proc.wait(timeout=max(1.0, limit - (time.time() - t0)))
        except subprocess.TimeoutExpired:
            proc.kill()
            proc.wait()
        if proc.returncode != 0 or not os.path.exists(part):
            failed += 1
            continue
        with open(part) as fh:
            parts.append(json.load(fh))
        dsets.append(core.load_distinct(part + ".distinct"))
    for name in os.listdir(tmpdir):
        os.unlink(os.path.join(tmpdir, name))
    os.rmdir(tmpdir)
    if not parts:
        print("INCONCLUSIVE: every shard failed")
        return core.EXIT_INCONCLUSIVE
    state = core.merge_parts(parts, dsets)
    # thresholds are per process; the merged histogram must meet them too
    return core.finish(state, time.time() - t0, failed_shards=failed)


if __name__ == "__main__":
    sys.exit(main())
