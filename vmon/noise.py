"""Cross-function histories ("what else ran in this process before the observed call").

The per-property workloads drive the function(s) a property is anchored in.  A user's process
does not: a plot job calls the unit parser, the clipper, the path simplifier, both spatial
indexes, the stepper math and the text helpers in one interpreter, interleaved.  A change that
makes one function's answer depend on state left behind by ANOTHER function (a module-level
cache or scratch list shared between helpers, a global numeric setting changed and not restored,
a default-argument object mutated by a sibling) is invisible to a workload that only ever calls
the one function.  `burst()` therefore makes a short run of valid, ordinary calls to the OTHER
public functions of the library - results ignored, exceptions swallowed and counted - so that
the property's own monitors then observe the function under test in a process with that history.

Calls go through the module attributes at call time, so contracts installed by the property
under check stay live for the functions it monitors (its monitors simply see more traffic; the
workload classes and thresholds of the property are not fed from here)."""


class _Root:
    def __init__(self, attrs):
        self.attrs = attrs

    def get(self, name, default=None):
        return self.attrs.get(name, default)


class _Doc:
    def __init__(self, attrs):
        self.root = _Root(attrs)

    def getroot(self):
        return self.root


class _Svg:
    def __init__(self, attrs):
        self.document = _Doc(attrs)


UNITS = ("", "px", "in", "mm", "cm", "pt", "pc", "Q", "%")
PARS = (None, "none", "xMidYMid meet", "xMinYMax slice", "xMaxYMin", "defer xMinYMin meet", "xMidYMax slice")


def _num(rng):
    return round(rng.uniform(0.5, 500.0), rng.choice((0, 1, 2, 3)))


def _pt(rng, scale=100.0):
    return [rng.uniform(-scale, scale), rng.uniform(-scale, scale)]


def n_units(rng):
    from plotink import plot_utils as pu
    text = "%s%s" % (_num(rng), rng.choice(UNITS))
    pu.parseLengthWithUnits(text)
    uu = pu.unitsToUserUnits(text, rng.choice((None, 100.0, 816)))
    pu.userUnitToUnits(rng.uniform(0, 1000), rng.choice(("in", "mm", "cm", "px", "pt", "pc", "Q", "")))
    svg = _Svg({"width": text, "height": "%smm" % _num(rng)})
    pu.getLength(svg, "width", 816)
    pu.getLengthInches(svg, "height")
    pu.getLength(svg, "absent", 1056)
    return uu


def n_viewbox(rng):
    from plotink import plot_utils as pu
    w, h = _num(rng), _num(rng)
    vb = "%s %s %s %s" % (rng.randint(-50, 50), rng.randint(-50, 50), _num(rng), _num(rng))
    if rng.random() < 0.3:
        vb = vb.replace(" ", ",")
    pu.vb_scale(vb, rng.choice(PARS), w, h)
    pu.vb_scale(None, None, w, h)


def n_limits(rng):
    from plotink import plot_utils as pu
    lo = rng.uniform(-10, 10)
    hi = lo + rng.uniform(0, 20)
    v = rng.uniform(-20, 30)
    pu.checkLimits(v, lo, hi)
    pu.checkLimitsTol(v, lo, hi, 1e-9)
    pu.constrainLimits(v, lo, hi)
    pu.point_in_bounds([v, rng.uniform(-20, 30)], [[lo, lo], [hi, hi]])
    pu.point_in_bounds([v, v], [[lo, lo], [hi, hi]], 0.01)


def n_clip(rng):
    from plotink import plot_utils as pu
    x0, y0 = rng.uniform(-5, 5), rng.uniform(-5, 5)
    bounds = [[x0, y0], [x0 + rng.uniform(0.1, 20), y0 + rng.uniform(0.1, 20)]]
    for _ in range(rng.randint(1, 4)):
        pu.clip_segment([_pt(rng, 30), _pt(rng, 30)], bounds)
    pu.clip_code(rng.uniform(-30, 30), rng.uniform(-30, 30), bounds[0][0], bounds[1][0], bounds[0][1], bounds[1][1])


def n_simplify(rng):
    from plotink import plot_utils as pu
    n = rng.randint(3, 40)
    x, y = 0.0, 0.0
    verts = []
    for _ in range(n):
        x += rng.uniform(0, 1)
        y += rng.uniform(-0.05, 0.05)
        verts.append([x, y])
    pu.supersample(verts, rng.choice((0.001, 0.01, 0.1, 1.0)))
    pts = [_pt(rng, 10) for _ in range(rng.choice((3, 4, 5)))]
    pu.points_in_tolerance(pts, rng.choice((0.01, 0.5, 5.0)))
    pu.max_dist_from_n_points(pts)


def n_bezier(rng):
    from plotink import plot_utils as pu
    nodes = []
    for _ in range(rng.randint(2, 4)):
        p = _pt(rng, 50)
        nodes.append([[p[0] - rng.uniform(0, 9), p[1] - rng.uniform(-9, 9)], list(p),
                      [p[0] + rng.uniform(0, 9), p[1] + rng.uniform(-9, 9)]])
    pu.subdivideCubicPath(nodes, rng.choice((0.05, 0.2, 1.0)))


def n_small_geometry(rng):
    from plotink import plot_utils as pu
    a, b = _pt(rng), _pt(rng)
    pu.distance(a[0], a[1])
    pu.dotProductXY(a, b)
    pu.points_equal(a, b)
    pu.points_near(a, b, 1e-6)
    pu.square_dist(a, b)
    pu.position_scale(a[0], a[1], rng.choice((0, 1, 2)))
    pu.vInitial_VF_A_Dx(rng.uniform(0, 10), rng.uniform(0.1, 50), rng.uniform(0, 3))
    pu.vFinal_Vi_A_Dx(rng.uniform(0, 10), rng.uniform(0.1, 50), rng.uniform(0, 3))
    d = "M %.3f,%.3f L %.3f,%.3f C 1,2 3,4 %.3f,%.3f" % (a[0], a[1], b[0], b[1], a[1], b[0])
    if rng.random() < 0.4:
        d += " Z"
    pu.pathdata_first_point(d)
    pu.pathdata_last_point(d)


def n_grid(rng):
    from plotink import spatial_grid
    n = rng.randint(2, 25)   # one start vertex alone has zero extent: outside the documented domain
    paths = []
    for _ in range(n):
        a = _pt(rng, 20)
        paths.append([a, [a[0] + rng.uniform(-3, 3), a[1] + rng.uniform(0.01, 3)]])
    idx = spatial_grid.Index(paths, rng.choice((1, 2, 3, 5, 8)), rng.random() < 0.5)
    for _ in range(min(n, rng.randint(1, 6))):
        got = idx.nearest(_pt(rng, 25))
        if got is None:
            break
        idx.remove_path(got if got < n else got - n)


def n_rtree(rng):
    from plotink import rtree
    boxes = []
    for i in range(rng.randint(1, 40)):
        x, y = rng.uniform(-50, 50), rng.uniform(-50, 50)
        boxes.append((i, (x, y, x + rng.uniform(0, 10), y + rng.uniform(0, 10))))
    tree = rtree.Index(boxes)
    for _ in range(rng.randint(1, 4)):
        x, y = rng.uniform(-50, 50), rng.uniform(-50, 50)
        tree.intersection((x, y, x + rng.uniform(0, 30), y + rng.uniform(0, 30)))


def n_stepper(rng):
    from plotink import ebb_calc as ec
    rate = rng.randint(0, 2 ** 27)
    t = rng.randint(1, 4000)
    accel = rng.randint(-(rate // t) if rate else 0, 2 ** 14)
    acc = rng.choice(("clear", rng.randint(0, 2 ** 31 - 1)))
    steps, acc2 = ec.move_dist_lt(rate, accel, t, acc)
    ec.move_dist_lt(rate, accel, t)
    ec.calculate_lm(rng.randint(1, 500), rng.randint(2 ** 20, 2 ** 27), rng.randint(0, 2 ** 12), acc2)
    jerk = rng.randint(-3, 3)
    r0 = rng.randint(2 ** 20, 2 ** 26)
    a0 = rng.randint(-2 ** 8, 2 ** 8)
    t3 = rng.randint(1, 1500)
    ec.move_dist_t3(t3, r0, a0, jerk, rng.choice(("clear", 12345)))
    ec.rate_t3(t3, r0, a0, jerk)
    ec.max_rate_t3(t3, r0, a0, jerk)


def n_legacy_stepper(rng):
    from plotink import ebb_motion as em
    rate = rng.randint(2 ** 16, 2 ** 26)
    em.moveDistLM(rate, rng.randint(0, 1000), rng.randint(1, 3000))
    em.moveDistLMA(rate, rng.randint(0, 1000), rng.randint(1, 3000), rng.choice(("clear", 7)))
    em.moveTimeLM(rate, rng.randint(1, 300), rng.randint(0, 1000))


def n_text(rng):
    from plotink import text_utils as tu
    tu.format_hms(rng.uniform(0, 100000))
    tu.format_hms(rng.randint(0, 10 ** 8), True)
    tu.xml_escape(rng.choice(("a<b & \"c\" > 'd'", "plain", "&amp;", "", "x" * 40 + "<")))


def n_versions(rng):
    from plotink import ebb_serial, ebb3_serial
    a = "%d.%d.%d" % (rng.randint(1, 3), rng.randint(0, 12), rng.randint(0, 12))
    try:
        ebb3_serial.EBB3().parse_version("EBBv13_and_above EB Firmware Version " + a)
    except Exception:  # signature is not part of what this module needs
        pass
    ebb_serial.min_version(None, a)


def n_discovery(rng):
    """Both layers' discovery helpers against whatever enumerator is currently in place (the real one
    finds no boards in the sandbox; a property that stubs the enumerator gets traffic through its stub)."""
    from plotink import ebb_serial, ebb3_serial
    ebb_serial.findPort()
    ebb_serial.listEBBports()
    ebb_serial.list_named_ebbs()
    ebb_serial.find_named_ebb("no such board %d" % rng.randint(0, 99))
    ebb3_serial.EBB3().find_first()
    ebb3_serial.list_ebb_ports()
    ebb3_serial.list_named_ebbs()
    ebb3_serial.find_named("no such board %d" % rng.randint(0, 99))


GROUPS = {
    "units": n_units, "viewbox": n_viewbox, "limits": n_limits, "clip": n_clip,
    "simplify": n_simplify, "bezier": n_bezier, "small-geometry": n_small_geometry,
    "grid": n_grid, "rtree": n_rtree, "stepper": n_stepper, "legacy-stepper": n_legacy_stepper,
    "text": n_text, "versions": n_versions, "discovery": n_discovery,
}


def burst(ctx, rng, exclude=(), n=None, only=None):
    """Make n (default 2..6) calls drawn from the groups not named in `exclude`.  Never a verdict:
    an exception in a sibling function is counted and swallowed (it is some other property's
    business).  The burst has its own PRNG whose seed goes into ctx.recent_noise, from where
    Ctx.violation copies it into the witness of the next few cases (replayable history)."""
    import random
    seed = rng.getrandbits(48)
    done = _run(ctx, random.Random(seed), exclude, n, only)
    ctx.recent_noise = {"seed": seed, "exclude": list(exclude), "n": n, "only": list(only) if only else None,
                        "groups": done}
    ctx._noise_age = 0
    ctx.tag("history: after calls to other library functions")
    return done


def _run(ctx, rng, exclude, n, only):
    names = [g for g in (only or GROUPS) if g not in exclude]
    done = []
    for _ in range(n or rng.randint(2, 6)):
        g = rng.choice(names)
        try:
            GROUPS[g](rng)
            ctx.count("noise:" + g)
        except Exception as exc:  # noqa: BLE001
            ctx.count("noise-raised:%s:%s" % (g, type(exc).__name__))
        done.append(g)
    return done


def rerun(ctx, rec):
    """Replay support: make the recorded burst again before the witness is re-evaluated."""
    import random
    _run(ctx, random.Random(rec["seed"]), tuple(rec.get("exclude") or ()), rec.get("n"), rec.get("only"))


def sanity(ctx, rng):
    """Run every group once; used by the self-test to make sure the noise itself is valid traffic on
    the unchanged tree (a group that raises there is a bug in this module, not in the library)."""
    bad = {}
    for g, fn in GROUPS.items():
        for _ in range(50):
            try:
                fn(rng)
            except Exception as exc:  # noqa: BLE001
                bad[g] = repr(exc)
                break
    return bad

