"""W-tests: the repository's own tests executed with this property's contracts live.

The 33 tests assert a handful of outputs; run under the contracts, every call they make to a
monitored function is also judged by the reference model.  A contract that fires there is either a
defect the tests do not assert or a monitor that is too strict - either way it must be looked at,
so it is reported like any other violation (witness marked `under: repository test-suite`)."""
import json
import os
import subprocess
import sys
import tempfile

from . import boot


def run(ctx):
    from . import core
    if (ctx.tier != "quick" and ctx.shard != 0) or core.BUDGET_SCALE != 1 or getattr(ctx, "variant", None):
        return
    test_dir = os.path.join(boot.REPO_DIR, "test")
    if not os.path.isdir(test_dir):
        ctx.note("repository has no test directory: W-tests skipped")
        return
    fd, out = tempfile.mkstemp(prefix="verif_wtests_", suffix=".json")
    os.close(fd)
    env = dict(os.environ, VERIF_PLUGIN_PROP=ctx.prop, VERIF_PLUGIN_OUT=out, PYTHONDONTWRITEBYTECODE="1",
               PYTHONPATH=os.pathsep.join([boot.VERIF_DIR, boot.DEPS_DIR]), VERIF_REACH="0")
    try:
        r = subprocess.run([sys.executable, "-m", "pytest", "-q", "-p", "vmon.pytest_plugin", "-p", "no:cacheprovider",
                            test_dir], cwd=boot.REPO_DIR, env=env, capture_output=True, text=True, timeout=900)
        tail = (r.stdout.strip().splitlines() or [""])[-1]
        ctx.extra["repository_tests_under_contracts"] = [tail]
        with open(out) as fh:
            data = json.load(fh)
    except (subprocess.TimeoutExpired, OSError, ValueError) as exc:
        ctx.note("W-tests could not be run: %r" % (exc,))
        return
    finally:
        if os.path.exists(out):
            os.unlink(out)
    evaluated = sum(v for k, v in data["counters"].items() if k.startswith(("monitor:", "contract:")))
    ctx.count("w-tests: monitor evaluations under the repository's own tests", evaluated)
    for k, v in data["counters"].items():
        if k.startswith("monitor:"):
            ctx.count("w-tests:" + k, v)
    for rec in data["records"]:
        w = rec["witness"] if isinstance(rec["witness"], dict) else {"witness": rec["witness"]}
        ctx.violation(rec["kind"], dict(w, under="repository test-suite"))
    for fault in data["oracle_faults"]:
        ctx.oracle_fault("under the repository test-suite: %s" % fault.get("what"), fault.get("witness"))
