"""Reference models of the EBB firmware step accumulator, in exact Python ints.

Written from the property statements (C01, C02, C03, C17), not from ebb_calc.py:
  LT/LM:  rate -= trunc(accel/2); each tick: rate += accel; acc += rate
  T3:     rate += -trunc(accel/2) + trunc(jerk/6); each tick: rate += accel;
          accel += jerk; acc += rate
  position = floor(total / 2^31), remainder in [0, 2^31)
Closed forms are used so that T up to 2^32 is affordable; `tick_*` functions
execute the recurrence literally and are used to self-check the closed forms in
every run (a disagreement is an oracle fault, not a verdict)."""
from fractions import Fraction

M = 2 ** 31
RMAX = M - 1          # firmware per-tick rate limit (signed 31-bit magnitude)
I32 = 2 ** 31         # |accel| limit used for T3 (signed 32-bit)


def trunc_div(a, b):
    """a / b truncated toward zero (b > 0), exact."""
    q = abs(a) // b
    return q if a >= 0 else -q


# ---------------------------------------------------------------- LT / LM
def lt_r0(rate, accel):
    return rate - trunc_div(accel, 2)


def lt_rate(rate, accel, k):
    """rate added to the accumulator at tick k (k >= 1)."""
    return lt_r0(rate, accel) + k * accel


def lt_clear_value(rate, accel):
    r1 = lt_rate(rate, accel, 1)
    if r1 < 0:
        return M - 1
    if r1 == 0 and accel < 0:       # r2 = r1 + accel
        return M - 1
    return 0


def lt_total(rate, accel, k, acc0):
    """Unreduced accumulator total after k ticks."""
    return acc0 + k * lt_r0(rate, accel) + accel * k * (k + 1) // 2


def lt_in_domain(rate, accel, time):
    """|rate_k| <= 2^31-1 for k = 1..T (linear: the two ends suffice)."""
    return abs(lt_rate(rate, accel, 1)) <= RMAX and abs(lt_rate(rate, accel, time)) <= RMAX


def lt_expected(rate, accel, time, accum):
    acc0 = lt_clear_value(rate, accel) if accum == "clear" else accum
    total = lt_total(rate, accel, time, acc0)
    return total // M, total % M


def tick_lt(rate, accel, time, accum):
    """Literal execution of the recurrence (self-check)."""
    r = rate - trunc_div(accel, 2)
    if accum == "clear":
        acc = None
    else:
        acc = accum
    pos = 0
    rates = []
    rr = r
    for _ in range(2):     # the firmware decides from the first two tick rates, whatever T is
        rr += accel
        rates.append(rr)
    if acc is None:
        acc = 0
        for x in rates:
            if x != 0:
                acc = M - 1 if x < 0 else 0
                break
    for _ in range(time):
        r += accel
        acc += r
        while acc >= M:
            acc -= M
            pos += 1
        while acc < 0:
            acc += M
            pos -= 1
    return pos, acc


# ---------------------------------------------------------------- T3
def t3_r0(rate, accel, jerk):
    return rate - trunc_div(accel, 2) + trunc_div(jerk, 6)


def t3_rate(rate, accel, jerk, k):
    """rate added to the accumulator at tick k >= 1."""
    return t3_r0(rate, accel, jerk) + k * accel + jerk * k * (k - 1) // 2


def t3_clear_value(rate, accel, jerk):
    for k in (1, 2, 3):
        r = t3_rate(rate, accel, jerk, k)
        if r != 0:
            return M - 1 if r < 0 else 0
    return 0


def t3_total(rate, accel, jerk, k, acc0):
    return (acc0 + k * t3_r0(rate, accel, jerk) + accel * k * (k + 1) // 2
            + jerk * (k - 1) * k * (k + 1) // 6)


def t3_vertex(accel, jerk):
    """Real-valued tick at which the rate parabola has its extremum (jerk != 0)."""
    return Fraction(1, 2) - Fraction(accel, jerk)


def t3_candidate_ticks(accel, jerk, time):
    ticks = {1, time}
    if jerk != 0:
        v = t3_vertex(accel, jerk)
        lo = v.numerator // v.denominator
        for k in (lo, lo + 1):
            if 1 <= k <= time:
                ticks.add(k)
    return ticks


def t3_peak(rate, accel, jerk, time):
    """max |rate_k| over k = 1..T (parabola: ends and the integer neighbours of the vertex)."""
    return max(abs(t3_rate(rate, accel, jerk, k)) for k in t3_candidate_ticks(accel, jerk, time))


def t3_in_domain(rate, accel, jerk, time):
    if t3_peak(rate, accel, jerk, time) > RMAX:
        return False
    # firmware accel register after k ticks: accel + k*jerk must stay in int32
    a_end = accel + time * jerk
    return -I32 <= accel < I32 and -I32 <= a_end < I32


def t3_expected(time, rate, accel, jerk, accum):
    acc0 = t3_clear_value(rate, accel, jerk) if accum == "clear" else accum
    total = t3_total(rate, accel, jerk, time, acc0)
    return total // M, total % M


def tick_t3(time, rate, accel, jerk, accum):
    """Literal T3 recurrence; returns (pos, acc, end_rate, peak_abs_rate)."""
    r = rate - trunc_div(accel, 2) + trunc_div(jerk, 6)
    if accum == "clear":
        rr, aa, acc = r, accel, 0
        for _ in range(3):
            rr += aa
            aa += jerk
            if rr != 0:
                acc = M - 1 if rr < 0 else 0
                break
    else:
        acc = accum
    pos, peak, a = 0, 0, accel
    for _ in range(time):
        r += a
        a += jerk
        acc += r
        peak = max(peak, abs(r))
        while acc >= M:
            acc -= M
            pos += 1
        while acc < 0:
            acc += M
            pos -= 1
    return pos, acc, r, peak


# ---------------------------------------------------------------- LM (step-limited)
class LMResult:
    __slots__ = ("invalid", "duration", "position", "accumulator", "rate", "accel", "acc0",
                 "k_rev", "steps", "reason")


def lm_normalise(steps, rate, accel):
    """Legacy mirror. Returns (steps, rate, accel) or None for the (0,0,0) requests."""
    if steps == 0:
        return None
    if rate == 0 and accel == 0:
        return None
    if steps < 0:
        if rate < 0:
            return None
        return -steps, -rate, -accel
    return steps, rate, accel


def _steps_taken(rate, accel, acc0, k, k_rev):
    """Motor steps taken in either direction during ticks 1..k.  The per-tick rate is
    linear, so the motion has at most two monotone phases: ticks 1..k_rev (rate sign
    s1 or zero) and ticks k_rev+1.. (opposite sign)."""
    p0 = acc0 // M
    if k_rev is None or k <= k_rev:
        return abs(lt_total(rate, accel, k, acc0) // M - p0)
    p_rev = lt_total(rate, accel, k_rev, acc0) // M
    return abs(p_rev - p0) + abs(lt_total(rate, accel, k, acc0) // M - p_rev)


def lm_reversal_tick(rate, accel):
    """Last tick k >= 0 of the first monotone phase, or None if the rate never changes
    sign for k >= 1.  (Zero rates belong to either phase.)"""
    r1 = lt_rate(rate, accel, 1)
    if accel == 0:
        return None
    # first phase sign = sign of first non-zero rate
    if r1 == 0:
        return None                 # r_k = (k-1)*accel: single sign for all k >= 1
    if (r1 > 0) == (accel > 0):
        return None                 # magnitude only grows
    # r_k = r1 + (k-1)*accel keeps the sign of r1 (or zero) while (k-1)*|accel| <= |r1|
    return abs(r1) // abs(accel) + 1


def lm_expected(steps_in, rate_in, accel_in, accum, max_duration=2 ** 70):
    """(duration, net position, accumulator) of the first tick at which the number of
    motor steps taken reaches the budget.  Returns an LMResult; .invalid is set with a
    reason when the request is outside the property's domain."""
    res = LMResult()
    res.invalid, res.reason = False, None
    norm = lm_normalise(steps_in, rate_in, accel_in)
    if norm is None:
        res.duration, res.position, res.accumulator = 0, 0, 0
        res.steps = 0
        res.rate, res.accel, res.acc0, res.k_rev = rate_in, accel_in, 0, None
        return res
    steps, rate, accel = norm
    acc0 = lt_clear_value(rate, accel) if accum == "clear" else accum
    k_rev = lm_reversal_tick(rate, accel)
    res.steps, res.rate, res.accel, res.acc0, res.k_rev = steps, rate, accel, acc0, k_rev
    # exponential search for an upper bound, then bisection on the monotone step count
    hi = 1
    while _steps_taken(rate, accel, acc0, hi, k_rev) < steps:
        hi *= 2
        if hi > max_duration:
            res.invalid, res.reason = True, "budget not completed"
            return res
    lo = hi // 2            # steps_taken(lo) < steps (or lo == 0)
    while hi - lo > 1:
        mid = (lo + hi) // 2
        if _steps_taken(rate, accel, acc0, mid, k_rev) >= steps:
            hi = mid
        else:
            lo = mid
    total = lt_total(rate, accel, hi, acc0)
    res.duration = hi
    res.position = total // M - acc0 // M
    res.accumulator = total % M
    if abs(lt_rate(rate, accel, 1)) > RMAX or abs(lt_rate(rate, accel, hi)) > RMAX:
        res.invalid, res.reason = True, "rate out of range"
    return res


def tick_lm(steps_in, rate_in, accel_in, accum, max_ticks):
    """Literal recurrence with a per-tick step counter (self-check). Returns
    (duration, position, accumulator) or None if not finished within max_ticks."""
    norm = lm_normalise(steps_in, rate_in, accel_in)
    if norm is None:
        return 0, 0, 0
    steps, rate, accel = norm
    r = rate - trunc_div(accel, 2)
    if accum == "clear":
        acc = 0
        r1 = r + accel
        r2 = r1 + accel
        for x in (r1, r2):
            if x != 0:
                acc = M - 1 if x < 0 else 0
                break
    else:
        acc = accum
    pos, taken = 0, 0
    for k in range(1, max_ticks + 1):
        r += accel
        acc += r
        while acc >= M:
            acc -= M
            pos += 1
            taken += 1
        while acc < 0:
            acc += M
            pos -= 1
            taken += 1
        if taken >= steps:
            return k, pos, acc
    return None
