"""Client-boundary monitor, method registry, scenario runner and history checkers for the
EBB3 class layer (ebb3_serial.EBB3 / ebb3_motion.EBBMotionWrap).

A *scenario* is a JSON-able description of one history:
    {"board": {...Ebb3Board kwargs...},
     "setup": "connect" | "attach" | "none",
     "steps": [{"m": method, "a": [args], "k": {kwargs}, "faults": [...FaultPlan faults...],
                "reply": {request-index-in-step: reply text}}, ...]}
run_scenario() builds a fresh monitored object + fake port + board, executes the steps and
returns the list of *findings*: dicts {"prop": "C04"|"C05", "kind": ..., "step": i, ...}.
Each property module reports the findings that belong to it; the scenario itself is the
replay file.

Observation points (none needs an edit of /repo):
  * every public method of the real class is wrapped in a subclass created at run time
    (call / return / raise events with nesting depth; depth 0 is the client boundary),
  * __setattr__ of that subclass reports every assignment to `err` and `port`,
  * the FakePort reports every write / readline / close to the same ordered log.
"""
import functools

from . import serialsim

FATAL_EXC = ("SerialException", "SerialTimeoutException", "PortNotOpenError", "OSError") + serialsim.OS_ERRNO_EXC

# name -> failure value (what the method documents / returns when it cannot do its job)
REQUESTS = {
    # ebb3_serial.EBB3
    "reboot": False, "bootload": False, "query_nickname": None, "write_nickname": False,
    "command": False, "query": None, "query_statusbyte": None,
    "var_write": False, "var_read": None, "var_write_int32": False, "var_read_int32": None,
    # ebb3_motion.EBBMotionWrap
    "timed_pause": None, "xy_move": None, "abs_move": None, "motors_disable": None,
    "motors_enable": None, "motors_query_enabled": None, "query_steps": None,
    "clear_steps": None, "clear_accumulators": None, "pen_lower": None, "pen_raise": None,
    "dio_b_config": None, "dio_b_set": None, "dio_b_read": None, "pen_pos_down": None,
    "pen_pos_up": None, "pen_rate_down": None, "pen_rate_up": None, "servo_timeout": None,
    "query_voltage": None, "query_current": (None, None),
}
# methods whose success value can never equal the failure value (the others return None always)
VALUE_METHODS = {"reboot", "bootload", "write_nickname", "command", "query", "query_statusbyte",
                 "var_write", "var_read", "var_write_int32", "var_read_int32",
                 "motors_query_enabled", "query_steps", "dio_b_read", "query_voltage", "query_current"}
NOT_REQUESTS = {"find_first", "record_error", "parse_version", "disconnect", "connect", "min_version"}
OWN_IO = {"query_statusbyte", "reboot", "bootload"}      # do their own single write/read
IGNORED_NAMES = ("rb", "r", "bl")                        # command()/query() ignore I/O errors after these

COMMAND_TEXTS = ["SM,100,10,-10", "EM,1,1", "SP,1,100", "TP", "CS", "SC,4,12000", "SR,60000",
                 "PO,B,3,0", "PD,B,3,0", "HM,1000", "XM,100,5,5", "LM,85899346,10,0,85899346,-10,0",
                 "T3,1,0,0,0,0,0,0,3", "SL,7,3", "CU,50,0", "S2,0,4", " SM,1,0,0 ", "\tTP\t", "EM,0,0\r",
                 "ES", "ES,1", " ES\r", "SE,1,512", "TD,1,0,0,0,0,0,0,0,0,0", "LT,100,1000,0,1000,0",
                 "L3,1,0,0,0,0,0,0", "PC,100,200", "PG,1", "NI", "ND", "SP,0", "EM,0,0", "SC,10,65535", "CU,2,0"]
# every request name of the EBB command set: on an object that is expected to be blocked NO text may reach
# the port, whatever it says (stop / abort / status / reset commands are where a guard is tempting to relax)
ALL_EBB_NAMES = ["A", "AC", "BL", "C", "CK", "CN", "CS", "CU", "EM", "ES", "HM", "I", "L3", "LM", "LT", "MR", "MW",
                 "ND", "NI", "O", "PC", "PD", "PG", "PI", "PO", "QB", "QC", "QE", "QG", "QL", "QM", "QN", "QP",
                 "QR", "QS", "QT", "QU", "R", "RB", "S2", "SC", "SE", "SL", "SM", "SN", "SP", "SR", "ST", "T",
                 "T3", "TD", "TP", "TR", "V", "XM"]


def any_request_text(rng):
    name = rng.choice(ALL_EBB_NAMES)
    k = rng.randrange(6)
    if k == 0:
        name = name.lower()
    args = ",".join(str(rng.choice((0, 1, 2, 10, 255, -5, 1000))) for _ in range(rng.choice((0, 0, 1, 2, 3))))
    text = name + ("," + args if args else "")
    if k == 1:
        text = " " + text + " "
    elif k == 2:
        text += "\r"
    elif k == 3:
        text = "\t" + text
    return text
# the reset family (I/O errors after them are deliberately ignored - the latch is not); only used for
# requests on objects that are expected to be blocked, because on a healthy object they reset the board
RESET_TEXTS = ["BL", "RB", "R", "bl", " BL ", "rb"]
QUERY_TEXTS = ["QG", "QS", "QE", "QC", "QT", "QL,3", "QP", "QB", "QM", "PI,B,2", "V", " QG ", "QL,0\r",
               "\tQS "]


def gen_args(rng, name, reset_ok=False):
    """Valid arguments for one request method."""
    r = rng.randrange
    if name == "command":
        if reset_ok and rng.random() < 0.3:
            return [rng.choice(RESET_TEXTS)]
        if reset_ok and rng.random() < 0.5:
            return [any_request_text(rng)]
        if reset_ok and rng.random() < 0.15:
            # unusual argument containers on an object that is blocked: whatever is handed over, nothing may be
            # written and the answer is the failure value (a batch form that is "vacuously successful" is not)
            return [rng.choice(([None], (None, None), [[None]], [], ["SM,1,0,0"], ("EM,0,0", None), b"SM,1,0,0",
                                bytearray(b"TP"), ["SM,1,0,0", "TP"], iter(()), {"SM,1,0,0": 1}))]
        return [rng.choice(COMMAND_TEXTS)]
    if name == "query":
        if reset_ok and rng.random() < 0.5:
            return [any_request_text(rng)]
        return [rng.choice(QUERY_TEXTS)]
    if name == "write_nickname":
        return [rng.choice(["Ada", "AxiDraw 7", "  padded  ", "x" * 16, "", "north-east", "MyQT,1", "ST,x"])]
    if name == "var_write":
        return [r(256), r(32)]
    if name == "var_read":
        return [r(32)]
    if name == "var_write_int32":
        return [rng.choice([0, 1, -1, 2 ** 31 - 1, -2 ** 31, 255, 256, -256, rng.randint(-2 ** 31, 2 ** 31 - 1)]), r(29)]
    if name == "var_read_int32":
        return [r(29)]
    if name == "timed_pause":
        return [rng.choice([1, 10, 750, 751, 1500, 1501, 2251, rng.randint(1, 4000)])]
    if name == "xy_move":
        return [rng.randint(-2000, 2000), rng.randint(-2000, 2000), rng.randint(1, 5000)]
    if name == "abs_move":
        return [rng.randint(2, 25000)] + ([] if rng.random() < 0.4 else [rng.randint(-9999, 9999), rng.randint(-9999, 9999)])
    if name == "motors_enable":
        return [rng.randint(-1, 6), rng.randint(-1, 6)]
    if name in ("pen_lower", "pen_raise"):
        return [rng.randint(0, 2000)] + ([] if rng.random() < 0.5 else [rng.randint(0, 7)])
    if name == "dio_b_config":
        return [r(8), r(2), r(2)]
    if name == "dio_b_set":
        return [r(8), r(2)]
    if name == "dio_b_read":
        return [r(8)]
    if name in ("pen_pos_down", "pen_pos_up", "pen_rate_down", "pen_rate_up"):
        return [rng.randint(1, 65535)]
    if name == "servo_timeout":
        return [rng.randint(0, 100000)] + ([] if rng.random() < 0.5 else [r(2)])
    if name == "query_voltage":
        return [] if rng.random() < 0.6 else [rng.randint(0, 1023)]
    return []


def request_name(text):
    """The one- or two-letter name a reply must begin with (from the statement)."""
    text = text.strip()
    if len(text) == 1 or (len(text) > 1 and text[1] == ","):
        return text[0]
    return text[0:2]


class Monitor:
    """Ordered event log + online latch checks for one monitored object."""

    def __init__(self, log):
        self.log = log
        self.depth = 0
        self.frames = []            # stack of open frames
        self.done = []              # closed frames of the current step (pre-order)
        self.online = []            # findings produced online (err overwritten, write while latched)
        self.obj = None

    # -- client boundary -------------------------------------------------------------
    def enter(self, obj, name, args, kwargs):
        frame = {"m": name, "a": list(args), "k": dict(kwargs), "depth": self.depth,
                 "start": self.log.mark(), "port_none": obj.__dict__.get("port") is None,
                 "err_at_entry": obj.__dict__.get("err"), "children": []}
        self.log.add("call", m=name, depth=self.depth)
        if self.frames:
            self.frames[-1]["children"].append(frame)
        self.frames.append(frame)
        self.depth += 1
        return frame

    def leave(self, frame, result=None, exc=None):
        self.depth -= 1
        self.frames.pop()
        frame["end"] = self.log.mark()
        if exc is not None:
            frame["raised"] = exc
            self.log.add("raise", m=frame["m"], depth=frame["depth"], exc=repr(exc))
        else:
            frame["result"] = result
            self.log.add("return", m=frame["m"], depth=frame["depth"], result=repr(result)[:80])
        self.done.append(frame)

    # -- state hooks -----------------------------------------------------------------
    def attr_set(self, obj, name, old, new):
        if name == "err":
            self.log.add("err_assign", old=old, new=new)
            if old is not None and new != old:
                self.online.append({"prop": "C04", "kind": "recorded error replaced by a later one",
                                    "old": old, "new": new,
                                    "during": self.frames[0]["m"] if self.frames else None})
        elif name == "port":
            self.log.add("port_assign", new=None if new is None else getattr(new, "name", repr(new)))

    def port_io(self, kind, ev):
        if kind != "write":
            return
        obj = self.obj
        top = self.frames[0]["m"] if self.frames else None
        ev["during"] = top
        if obj is None or top in ("connect", None):
            return
        err = obj.__dict__.get("err")
        if err is not None:
            self.online.append({"prop": "C04", "kind": "bytes written after an error was recorded",
                                "data": ev["data"].decode("latin-1"), "during": top, "err": err})


_class_cache = {}


def monitored_class():
    """Subclass of the real EBBMotionWrap with every public method wrapped."""
    from plotink import ebb3_motion
    base = ebb3_motion.EBBMotionWrap
    if base in _class_cache:
        return _class_cache[base]

    def wrap(name, orig):
        @functools.wraps(orig)
        def wrapper(self, *args, **kwargs):
            mon = self.__dict__.get("_mon")
            if mon is None:
                return orig(self, *args, **kwargs)
            frame = mon.enter(self, name, args, kwargs)
            try:
                result = orig(self, *args, **kwargs)
            except BaseException as exc:      # noqa: B902 - observed, re-raised unchanged
                mon.leave(frame, exc=exc)
                raise
            mon.leave(frame, result=result)
            return result
        return wrapper

    body = {}
    public = []
    for name in dir(base):
        if name.startswith("_"):
            continue
        import inspect
        static = inspect.getattr_static(base, name)
        if not inspect.isfunction(static):
            # classmethods, staticmethods, properties, class constants and nested classes are not
            # requests on an object: left exactly as inherited (wrapping a classmethod's bound form
            # as if it were an instance method would be a harness fault, not an observation)
            continue
        body[name] = wrap(name, static)
        public.append(name)

    def __setattr__(self, name, value):
        mon = self.__dict__.get("_mon")
        if mon is not None and name in ("err", "port"):
            old = self.__dict__.get(name)
            object.__setattr__(self, name, value)
            mon.attr_set(self, name, old, value)
        else:
            object.__setattr__(self, name, value)

    body["__setattr__"] = __setattr__
    cls = type("MonitoredEBB", (base,), body)
    cls.PUBLIC = sorted(public)
    _class_cache[base] = cls
    return cls


def registry_report():
    """Public methods of the real class vs the registry (unmonitored ones are evidence)."""
    cls = monitored_class()
    known = set(REQUESTS) | NOT_REQUESTS
    return {"public_methods": len(cls.PUBLIC),
            "request_methods_in_registry": sorted(set(REQUESTS) & set(cls.PUBLIC)),
            "registry_methods_missing_from_class": sorted(set(REQUESTS) - set(cls.PUBLIC)),
            "public_methods_not_in_registry": sorted(set(cls.PUBLIC) - known)}


# ---------------------------------------------------------------------------------------
class Patched:
    """serial.Serial and the module-level comports of ebb3_serial replaced by fakes."""

    def __init__(self, factory, ports=None):
        self.factory = factory
        self.ports = ports if ports is not None else [("/dev/fake0", "EiBotBoard", "USB VID:PID=04D8:FD92 SER=X LOCATION=1")]

    def __enter__(self):
        from plotink import ebb3_serial
        self.mod = ebb3_serial
        self.saved = (ebb3_serial.serial.Serial, ebb3_serial.comports)
        ebb3_serial.serial.Serial = self.factory
        ebb3_serial.comports = lambda: list(self.ports)
        return self

    def __exit__(self, *exc):
        self.mod.serial.Serial, self.mod.comports = self.saved
        return False


class World:
    """One monitored object wired to one fake port and one board."""
    counter = 0

    def __init__(self, board_kwargs=None, board=None):
        self.log = serialsim.EventLog()
        self.board = board if board is not None else serialsim.Ebb3Board(**(board_kwargs or {}))
        self.plan = serialsim.FaultPlan()
        self.port = serialsim.FakePort(self.board, self.log, self.plan)
        World.counter += 1
        self.port.timeout = (1.0, 1.0, 2.0, None, 0.25, 10, 0)[World.counter % 7]   # as the caller opened it
        self.mon = Monitor(self.log)
        self.obj = monitored_class()()
        self.obj.__dict__["_mon"] = self.mon
        self.mon.obj = self.obj
        self.port.on_io = self.mon.port_io
        self.open_fault = None
        self.opened = 0

    def factory(self, name, timeout=None, **kw):
        self.opened += 1
        self.log.add("open", port=name)
        if self.open_fault:
            raise serialsim.make_exc(self.open_fault, "injected open fault")
        self.port.is_open = True
        if timeout is not None:
            self.port.timeout = timeout         # what the library asked for when opening
        return self.port

    def attach(self):
        """Connected state without the handshake (board already in future syntax)."""
        self.board.future = True
        self.obj.port = self.port
        self.obj.port_name = self.port.name
        self.obj.parse_version(self.board.version_line())


def call_step(world, step):
    """Execute one depth-0 call with its fault plan armed. Returns the closed top frame."""
    mon, plan = world.mon, world.plan
    mon.done = []
    plan.faults = list(step.get("faults") or [])
    reply = step.get("reply")
    first_req = len(world.board.requests)
    if reply:
        def hook(req, lines, _first=first_req, _reply=reply):
            text = _reply.get(str(req["id"] - _first))
            if text is None:
                return lines
            return [ln.encode("latin-1") for ln in text] if isinstance(text, list) else [text.encode("latin-1")]
        world.board.reply_hook = hook
    method = getattr(world.obj, step["m"])
    plan.arm()
    open_fault = step.get("open_fault")
    world.open_fault = open_fault
    try:
        if step["m"] == "connect":
            with Patched(world.factory, step.get("ports")):
                method(*step.get("a", []), **step.get("k", {}))
        else:
            method(*step.get("a", []), **step.get("k", {}))
    except Exception:       # observed through the frame; never propagates into the harness
        pass
    finally:
        plan.disarm()
        world.board.reply_hook = None
        world.open_fault = None
    top = mon.done[-1] if mon.done else None
    return top, first_req


def io_of(world, frame):
    """Port events inside a frame, in order."""
    return [ev for ev in world.log.events[frame["start"]:frame["end"]] if ev["kind"] in ("write", "read")]


def expect_primitive(world, frame):
    """Outcome the statement prescribes for one command()/query() invocation on a clean
    object, computed from what the port actually did. Returns dict or None (not decidable)."""
    text = frame["a"][0] if frame["a"] else frame["k"].get("cmd", frame["k"].get("qry"))
    if text is None:
        return {"skip": "no text"}
    if not isinstance(text, str):
        return {"skip": "request text is not a string (outside the statement)"}
    trimmed = text.strip()
    name = request_name(trimmed)
    io = io_of(world, frame)
    writes = [e for e in io if e["kind"] == "write"]
    reads = [e for e in io if e["kind"] == "read"]
    exp = {"name": name, "trimmed": trimmed, "writes": writes, "reads": reads}
    raised = [e for e in io if "raised" in e]
    if raised:
        exp["outcome"] = "ignored-io-error" if name.lower() in IGNORED_NAMES else "fail"
        exp["why"] = "I/O exception"
        exp["reads_expected"] = None
        return exp
    first_line = None
    empties = 0
    for e in reads[:26]:
        if e["data"].decode("latin-1").strip() == "":
            empties += 1
            continue
        first_line = e["data"].decode("latin-1").strip()
        break
    exp["reads_expected"] = min(empties, 25) + 1 if first_line is not None or empties >= 26 else None
    if first_line is None:
        exp["outcome"], exp["why"] = "fail", "no reply within 26 reads"
        exp["reads_expected"] = 26
        return exp
    exp["line"] = first_line
    if first_line.startswith(name) and "Err:" not in first_line:
        exp["outcome"] = "ok"
        rest = first_line[len(name):]
        exp["payload"] = rest[1:] if rest.startswith(",") else rest
    else:
        exp["outcome"], exp["why"] = "fail", "reply does not start with the name or carries Err:"
    return exp


def walk(frame):
    yield frame
    for child in frame["children"]:
        yield from walk(child)


def check_step(world, step, top, idx, first_req):
    """All C04 / C05 clauses for one depth-0 call. Returns findings."""
    out = []
    obj, mon = world.obj, world.mon
    name = step["m"]
    for f in mon.online:
        f = dict(f, step=idx)
        out.append(f)
    mon.online = []
    if top is None:
        return out
    is_request = name in REQUESTS
    blocked = top["port_none"] or top["err_at_entry"] is not None
    io = io_of(world, top)
    writes = [e for e in io if e["kind"] == "write"]
    err_now = obj.__dict__.get("err")

    if "raised" in top:
        exc = top["raised"]
        if is_request and name in OWN_IO and isinstance(exc, OSError) \
                and not isinstance(exc, serialsim.serial.SerialException) and not blocked:
            # reboot()/bootload() contain the pyserial exception family only; a bare OSError from
            # write() is not something a pyserial port raises (pyserial wraps it), so it is logged
            # as an observation and is not a verdict
            out.append({"prop": "observation", "step": idx, "kind": "bare OSError escaped %s" % name})
            return out
        if is_request and name in ("command", "query") and top.get("a") and not isinstance(top["a"][0], str) \
                and isinstance(exc, (TypeError, ValueError, AttributeError)):
            # request text that is not a string is outside the statement; refusing it with a TypeError (before or
            # after the guard) is argument validation, not a request that failed
            out.append({"prop": "observation", "step": idx, "kind": "non-string request text rejected with %s"
                        % type(exc).__name__})
            return out
        if is_request:
            out.append({"prop": "C04" if blocked else "C05", "step": idx,
                        "kind": "public request method raised", "method": name, "exception": repr(exc),
                        "exc_type": type(exc).__name__, "blocked": blocked})
        return out

    if is_request and blocked:
        # ---- C04: silent and failing -------------------------------------------------
        if writes:
            out.append({"prop": "C04", "step": idx, "kind": "bytes written while latched / not connected",
                        "method": name, "data": [w["data"].decode("latin-1") for w in writes],
                        "state": "not connected" if top["port_none"] else "latched"})
        if name in VALUE_METHODS:
            wrong = top["result"] != REQUESTS[name] or type(top["result"]) is not type(REQUESTS[name])
        else:
            # methods without a success value: "nothing" (None) or an explicit False are failure values;
            # anything truthy would claim success
            wrong = not (top["result"] is None or top["result"] is False)
        if wrong:
            out.append({"prop": "C04", "step": idx, "kind": "wrong failure value while latched / not connected",
                        "method": name, "returned": repr(top["result"]), "failure_value": repr(REQUESTS[name]),
                        "state": "not connected" if top["port_none"] else "latched"})
        if err_now != top["err_at_entry"]:
            out.append({"prop": "C04", "step": idx, "kind": "error message changed while latched / not connected",
                        "method": name, "before": top["err_at_entry"], "after": err_now})
        return out

    if not is_request:
        return out

    # ---- C05: clean object -------------------------------------------------------------
    any_fail = False
    any_ignored = False
    for frame in walk(top):
        if frame["m"] not in ("command", "query"):
            continue
        if frame["port_none"] or frame["err_at_entry"] is not None:
            # nested request after the error was latched inside this call: must be silent (C04)
            if io_of(world, frame):
                out.append({"prop": "C04", "step": idx, "kind": "nested request did I/O after the latch",
                            "method": name, "nested": frame["m"], "text": frame["a"]})
            continue
        exp = expect_primitive(world, frame)
        if "skip" in exp:
            continue
        prim = frame["m"]
        base = {"prop": "C05", "step": idx, "method": name, "primitive": prim, "text": frame["a"][0]}
        if "raised" in frame:
            continue            # reported at depth 0
        want_payload = (exp["trimmed"] + "\r").encode("ascii", "replace")
        if len(exp["writes"]) != 1:
            out.append(dict(base, kind="request not written exactly once",
                            writes=[w["data"].decode("latin-1") for w in exp["writes"]]))
        elif exp["writes"][0]["data"] != want_payload:
            out.append(dict(base, kind="wrong bytes on the wire",
                            wrote=exp["writes"][0]["data"].decode("latin-1"),
                            expected=want_payload.decode("latin-1")))
        if exp["reads_expected"] is not None and len(exp["reads"]) != exp["reads_expected"]:
            out.append(dict(base, kind="wrong number of reads", reads=len(exp["reads"]),
                            expected=exp["reads_expected"],
                            lines=[r.get("data", b"").decode("latin-1") for r in exp["reads"][:30]]))
        err_after = None
        for ev in world.log.events[frame["start"]:frame["end"]]:
            if ev["kind"] == "err_assign" and ev["new"] is not None:
                err_after = ev["new"]
        result = frame["result"]
        if exp["outcome"] == "ok":
            if err_after is not None:
                out.append(dict(base, kind="conforming reply treated as an error", reply=exp["line"], err=err_after))
            elif prim == "command" and result is not True:
                out.append(dict(base, kind="successful command did not return True", reply=exp["line"], returned=repr(result)))
            elif prim == "query" and result != exp["payload"]:
                out.append(dict(base, kind="query returned the wrong text", reply=exp["line"],
                                returned=repr(result), expected=exp["payload"]))
        elif exp["outcome"] == "fail":
            any_fail = True
            fail_value = False if prim == "command" else None
            if err_after is None:
                out.append(dict(base, kind="failure not recorded as the object's error", why=exp["why"],
                                reply=exp.get("line"), returned=repr(result)))
            if result is not fail_value:
                out.append(dict(base, kind="failure not reported by the return value", why=exp["why"],
                                reply=exp.get("line"), returned=repr(result)))
        else:
            any_ignored = True

    if name in OWN_IO:
        raised = [e for e in io if "raised" in e]
        if name == "query_statusbyte":
            reads = [e for e in io if e["kind"] == "read"]
            first = reads[0]["data"].decode("latin-1").strip() if reads and "data" in reads[0] else ""
            # the statement's 25-empty-reads clause is anchored in command()/query(); this method may give
            # up after one empty read (as the unchanged code does) or wait like query(): the line it
            # actually judged is the first non-empty one among the reads it made
            line = next((e["data"].decode("latin-1").strip() for e in reads[:26]
                         if "data" in e and e["data"].decode("latin-1").strip()), "")
            gave_up_early = first == "" and top["result"] is None and err_now is not None
            if gave_up_early:
                line = ""
            good = (not raised) and line.startswith("QG") and "Err:" not in line
            value = None
            if good:
                try:
                    value = int(line[3:], 16)
                except ValueError:
                    good = False
            if len(writes) != 1 or writes[0]["data"] != b"QG\r":
                out.append({"prop": "C05", "step": idx, "method": name, "kind": "request not written exactly once",
                            "writes": [w["data"].decode("latin-1") for w in writes]})
            if good:
                if top["result"] != value or err_now is not None:
                    out.append({"prop": "C05", "step": idx, "method": name, "kind": "conforming status reply mishandled",
                                "reply": line, "returned": repr(top["result"]), "err": err_now})
            else:
                if top["result"] is not None:
                    out.append({"prop": "C05", "step": idx, "method": name,
                                "kind": "failure not reported by the return value",
                                "reply": line, "returned": repr(top["result"]), "err": err_now})
                if err_now is None and (raised or line):
                    out.append({"prop": "C05", "step": idx, "method": name,
                                "kind": "failure not recorded as the object's error", "reply": line})
        else:
            if raised and top["result"] is not False:
                out.append({"prop": "C05", "step": idx, "method": name,
                            "kind": "failure not reported by the return value", "returned": repr(top["result"])})
            if not raised and (top["result"] is not True or len(writes) != 1):
                out.append({"prop": "C05", "step": idx, "method": name, "kind": "request not written exactly once",
                            "writes": [w["data"].decode("latin-1") for w in writes], "returned": repr(top["result"])})
        return out

    if name in ("command", "query"):
        if not any_fail and not any_ignored and world.board.out:
            out.append({"prop": "C05", "step": idx, "method": name, "kind": "reply left unread after a successful request",
                        "pending": [b.decode("latin-1") for b in world.board.out]})
        return out
    # composite methods: a failed primitive must surface as err + failure value
    if any_fail:
        if err_now is None:
            out.append({"prop": "C05", "step": idx, "method": name,
                        "kind": "failure not recorded as the object's error"})
        if name in VALUE_METHODS and (top["result"] != REQUESTS[name] or type(top["result"]) is not type(REQUESTS[name])):
            out.append({"prop": "C05", "step": idx, "method": name,
                        "kind": "failure not reported by the return value", "returned": repr(top["result"]),
                        "failure_value": repr(REQUESTS[name])})
    elif not any_ignored:
        if err_now is not None:
            out.append({"prop": "C05", "step": idx, "method": name,
                        "kind": "conforming reply treated as an error", "err": err_now})
        elif name in VALUE_METHODS and top["result"] == REQUESTS[name] and type(top["result"]) is type(REQUESTS[name]):
            out.append({"prop": "C05", "step": idx, "method": name,
                        "kind": "successful request returned its failure value", "returned": repr(top["result"])})
        if world.board.out:
            out.append({"prop": "C05", "step": idx, "method": name, "kind": "reply left unread after a successful request",
                        "pending": [b.decode("latin-1") for b in world.board.out]})
    return out


def run_scenario(scen, hook=None):
    """Execute a scenario; returns (findings, world, tops). hook(world, i, step, top) is called
    after every step (property-specific assertions on the board state, counters)."""
    world = World(board_kwargs=scen.get("board"))
    setup = scen.get("setup", "attach")
    findings = []
    tops = []
    if setup == "attach":
        world.attach()
    elif setup == "connect":
        step = {"m": "connect", "a": [], "k": {}}
        top, _ = call_step(world, step)
        findings += [dict(f, step=-1) for f in world.mon.online]
        world.mon.online = []
        if top is None or top.get("result") is not True:
            findings.append({"prop": "harness", "kind": "setup connect failed", "err": world.obj.err})
    for i, step in enumerate(scen["steps"]):
        top, first_req = call_step(world, step)
        tops.append(top)
        findings += check_step(world, step, top, i, first_req)
        if hook is not None:
            hook(world, i, step, top)
    return findings, world, tops


# ---------------------------------------------------------------------------------------
# fault catalogue shared by C04 / C05 / C15
ERR_LINES = ["!8 Err: Unknown command 'XX:0x5858'", "!0 Err: <axis1> step rate > 25K steps/second.",
             "{name},!5 Err: Invalid parameter value"]
WRONG_NAME = ["QZ,17", "ZZ", "OK", "XX,1,2,3", "!", "0,0"]


def fault_label(f):
    if f["kind"] == "empty":
        return "%s:empty x%d" % (f["op"], f["count"])
    if f["kind"] == "raise":
        return "%s:raise %s" % (f["op"], f["exc"])
    if f["kind"] == "line":
        return "read:%s line" % f.get("label", "replaced")
    return "%s:%s" % (f["op"], f["kind"])


def fatal_faults_at(op, at, rng=None, all_kinds=True):
    """Every fault kind that must make the request fail, placed at one I/O index."""
    out = []
    excs = FATAL_EXC if all_kinds else (FATAL_EXC[0],)
    for exc in excs:
        out.append({"op": op, "at": at, "kind": "raise", "exc": exc})
    if op == "read":
        out.append({"op": "read", "at": at, "kind": "silence"})
        out.append({"op": "read", "at": at, "kind": "empty", "count": 26})
        errs = ERR_LINES if all_kinds else ERR_LINES[:1]
        for text in errs:
            out.append({"op": "read", "at": at, "kind": "line", "label": "error", "data": text + "\r\n"})
        wrongs = WRONG_NAME if all_kinds else WRONG_NAME[:2]
        for text in wrongs:
            out.append({"op": "read", "at": at, "kind": "line", "label": "wrong-name", "data": text + "\r\n"})
    return out


def dry_io_counts(board_kwargs, setup, prefix_steps, step):
    """(writes, reads) the step performs fault-free after the given prefix."""
    scen = {"board": board_kwargs, "setup": setup, "steps": list(prefix_steps) + [dict(step, faults=[])]}
    _f, world, tops = run_scenario(scen)
    io = io_of(world, tops[-1])
    return (sum(1 for e in io if e["kind"] == "write"), sum(1 for e in io if e["kind"] == "read"))
